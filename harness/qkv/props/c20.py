"""C20 — AutoQKeras trials respect the search limits; forgiving factor; size model (DESIGN.md §4 C20).

Streams
  tables   static tie: default_quantization_config, REGISTERED/SEQUENCE lists (exhaustive)
  adjust   real AutoQKHyperModel.__init__/_adjust_limit vs Lean adjustLimit
  getq     real _get_quantizer on call sequences (shared self.groups) vs Lean getQuantizer
  qm       real quantize_model driven by a stub `hp` (all index scripts of small spaces, sampled
           otherwise) vs Lean quantizeModel (+ `applied`): hp call log, dictionary handed to
           model_quantize, rewritten units/filters, quantizers found on the trial model
  delta    real ForgivingFactorBits.delta() vs the float64 simulation with numpy's logs as oracle
  ffapi    HISTORIES on one ForgivingFactorBits object through the public API (get_reference directly / via the
           AutoQKHyperModel constructor / via AutoQKeras(goal={...}), get_trial, delta, cached get_reference,
           re-assigned stress) for stress in {1, 1/2, 2, 0.8, 3/4, 5/4} in several argument forms x reference
           models of different sizes, vs Lean runF (getReference / getTrial / deltaObj); delta_zero / _sign /
           _monotone judged against the value get_reference RETURNS; reference_size attribute == that value
  szhist   the size of a TRIAL on a USED ForgivingFactorBits object: get_reference, then get_trial on filter-tuned
           trials of the real hyper-model (partial limits: unquantized layers downstream of a scaled layer), on
           same-named hand-built models, partially quantized copies, the reference itself; rows / totals judged
           against elements x bits of the trial's own tensors and against a fresh twin; vs Lean runM
  size     real compute_model_size vs Lean computeModelSize
Clause oracle (on the REAL outputs only): within_limit / from_config / excluded_unquantized /
group_shared / architecture / adjust_documented / delta_zero / delta_sign / delta_monotone / reference_tie /
size_bits / size_history.
`layer_indexes` is generated in every legal form (None, empty list / tuple / range / array / set, [0], singletons,
tuples, ranges, numpy arrays and integers, duplicates, re-assigned on a used hyper-model, through AutoQKeras).
The limits the oracle judges with are derived from the USER's dictionary by `doc_limit` (the documented
role-wise completion), never read back from `hm.limit`.
"""
import contextlib
import copy
import io
import itertools
import re

import numpy as np

from .. import core

FIELD_INDEX = {"linear": 0, "kernel": 0, "bias": 1, "pointwise_kernel": 2, "recurrent_kernel": 2,
               "recurrent_activation": -1, "activation": -1}
FILTER_RANGE = [0.5, 0.75, 1.0, 1.5, 2.0]
ERR = {"KeyError": "key-error", "TypeError": "type-error", "IndexError": "index-error",
       "AssertionError": "assert", "ValueError": "empty-choice"}


class StubHP:
  """stand-in for keras_tuner.HyperParameters: records every call, returns the scripted element.

  Like keras-tuner, a name asked twice returns the value stored the first time, and an empty
  `values` list is rejected with ValueError."""

  def __init__(self, script=()):
    self.script = list(script)
    self.k = 0
    self.values = {}
    self.idx = {}        # name -> chosen index (string choices)
    self.idx_f = {}      # name -> chosen index (float choices)
    self.rec = []
    self.dims = []       # sizes of the scripted dimensions, in order of first request
    self.repeated = 0

  def Choice(self, name, values, ordered=None, default=None, **_):
    values = list(values)
    if not values:
      raise ValueError("`values` must be provided.")
    is_f = not isinstance(values[0], str)
    if is_f:
      self.rec.append({"k": "choiceF", "name": name, "opts": [core.rj(v) for v in values]})
    else:
      self.rec.append({"k": "choice", "name": name, "opts": values})
    if name in self.values:
      self.repeated += 1
      return self.values[name]
    i = self.script[self.k] if self.k < len(self.script) else 0
    self.k += 1
    self.dims.append(len(values))
    (self.idx_f if is_f else self.idx)[name] = i
    self.values[name] = values[i]
    return values[i]

  def Fixed(self, name, value, **_):
    self.rec.append({"k": "fixed", "name": name, "value": value})
    return value


class StubTarget:
  def get_reference(self, model):
    return 1


def lim_json(limit):
  return [[k, v] for k, v in limit.items()]


def cfg_json(cfg):
  return [[f, [[q, int(b)] for q, b in d.items()]] for f, d in cfg.items()]


def match_pairs(limit, names):
  out = []
  for p in limit:
    for n in names:
      try:
        if re.match(p, n):
          out.append([p, n])
      except re.error:
        pass
  return out


def groups_json(groups):
  return [[p, int(i), q, int(b)] for p, d in groups.items() for i, (q, b) in d.items()]


def norm_groups(g):
  return sorted([list(x) for x in g])


def quiet():
  return contextlib.redirect_stdout(io.StringIO())


class StubTuner:
  """stand-in for a keras-tuner Tuner handed to `AutoQKeras(..., custom_tuner=StubTuner)`: keeps the
  hyper-model the wrapper built, searches nothing"""

  def __init__(self, hypermodel, **kw):
    self.hypermodel = hypermodel
    self.kw = kw

  def search_space_summary(self):
    pass


NO_DIR = "/tmp/qkv-c20-no-such-output-dir"


def make_hm(ai, model, limit, cfg, target=None, route="direct", **kw):
  """the hyper-model, built directly or (route "AutoQKeras") by the public wrapper `AutoQKeras(...)`, which
  forwards limit / layer_indexes / tune_filters / quantization_config and the goal to `AutoQKHyperModel`"""
  kw.setdefault("tune_filters", "none")
  kw.setdefault("tune_filters_exceptions", "^$")
  with quiet():
    if route == "AutoQKeras":
      return ai.AutoQKeras(model, metrics=["acc"], goal=target, output_dir=NO_DIR, custom_tuner=StubTuner,
                           limit=copy.deepcopy(limit), quantization_config=cfg, **kw).hypermodel
    return ai.AutoQKHyperModel(model, ["acc"], target=target or StubTarget(), limit=copy.deepcopy(limit),
                               quantization_config=cfg, **kw)


def resolve(limit, name, cls):
  """harness-side reading of the property: first limit key matching the layer name, else the class"""
  for p in limit:
    try:
      if re.match(p, name):
        return p, True
    except re.error:
      pass
  return (cls, False) if cls in limit else (None, False)


def lim_at(limit, key, index):
  v = limit[key]
  if not isinstance(v, list):
    return None
  try:
    return v[index]
  except IndexError:
    return None


def doc_limit(user_limit, registered, sequence):
  """the limit dictionary as DOCUMENTED (class comment of AutoQKHyperModel: "Conv2D/Dense:
  [weight, bias, activation]", "RNN: [weight, bias, recurrent, activation]", "default replaces missing
  values"), derived from the USER's dictionary role by role — not with the slices of `_adjust_limit` and
  not from `hm.limit`.  A scalar default stands for every role; a 3-list default is
  [weight, bias, activation]; a 4-list default is [weight, bias, recurrent, activation].  Only class keys
  of REGISTERED_LAYERS are completed; pattern keys, "Activation" and unknown keys stay as given."""
  d = user_limit.get("default", None)
  if d is None:
    d = 8
  if isinstance(d, list):
    if len(d) == 3:
      role_default = {"weight": d[0], "bias": d[1], "activation": d[2]}
    elif len(d) == 4:
      role_default = {"weight": d[0], "bias": d[1], "recurrent": d[2], "activation": d[3]}
    else:
      return None            # the constructor refuses such a default
  else:
    role_default = {"weight": d, "bias": d, "activation": d}
  out = {}
  for key, v in user_limit.items():
    if key in registered and isinstance(v, list):
      roles = ["weight", "bias", "recurrent", "activation"] if key in sequence else ["weight", "bias", "activation"]
      v = list(v)
      if len(v) < len(roles):
        missing = roles[len(v):]
        if any(r not in role_default for r in missing):
          return None        # a recurrent class needs the 4-element default; the constructor asserts
        v = v + [role_default[r] for r in missing]
    out[key] = v
  return out


def li_canon(sel):
  """a `layer_indexes` argument in any legal form (None / list / tuple / range / set / frozenset / numpy
  array / numpy integers / duplicates) -> None or the sorted list of its members as python ints.  The code
  reads it through `layer_id not in self.layer_indexes` only (Lean: C20_selection_membership_only)."""
  return None if sel is None else sorted(int(i) for i in sel)


def li_form(sel):
  if sel is None:
    return "None"
  t = type(sel).__name__
  if t == "list" and sel and all(isinstance(i, np.integer) for i in sel):
    t = "list[np.int64]"
  return t


_CTOR = object()


def kw_json(kw, sel=_CTOR):
  """kwargs of a qm configuration in a JSON-able form (ranges, sets and arrays spelled out)"""
  out = {}
  for k, v in kw.items():
    if k == "layer_indexes":
      out[k] = {"form": li_form(v), "members": li_canon(v), "repr": repr(v)}
    else:
      out[k] = v
  if sel is not _CTOR:
    out["layer_indexes_now"] = {"form": li_form(sel), "members": li_canon(sel), "repr": repr(sel),
                                "set_by": "attribute assignment after earlier trials on the same hyper-model"}
  return out


# --------------------------------------------------------------------------- reference models

def build_models(tier):
  from tensorflow.keras import layers as L
  from tensorflow.keras.models import Model
  ms = {}

  i = x = L.Input((6,), name="input")
  x = L.Dense(4, activation="relu", name="d0")(x)
  x = L.Dense(3, use_bias=False, name="d1")(x)
  x = L.Activation("relu", name="act_1")(x)
  x = L.Dense(2, name="d_out")(x)
  x = L.Activation("softmax", name="softmax")(x)
  ms["mlp"] = Model(i, x)

  i = x = L.Input((6, 6, 1), name="input")
  x = L.Conv2D(2, (2, 2), activation="relu", name="conv_a")(x)
  x = L.BatchNormalization(name="bn_a")(x)
  x = L.Activation("linear", name="lin_a")(x)
  x = L.DepthwiseConv2D((2, 2), use_bias=False, name="dw_b")(x)
  x = L.Activation("tanh", name="act_b")(x)
  x = L.Flatten(name="flatten")(x)
  x = L.Dense(3, activation="sigmoid", name="fc")(x)
  ms["conv"] = Model(i, x)

  i = x = L.Input((6, 6, 1), name="input")
  x = L.SeparableConv2D(2, (2, 2), name="sep_1")(x)
  x = L.Activation("relu", name="act_s")(x)
  x = L.SeparableConv2D(2, (2, 2), activation="relu", name="sep_2")(x)
  x = L.Flatten(name="flatten")(x)
  x = L.Dense(2, name="dense")(x)
  ms["sep"] = Model(i, x)

  # layer names that contain the substrings the head dispatch tests for
  i = x = L.Input((5,), name="input")
  x = L.Dense(3, activation="relu", name="kernel_fc")(x)
  x = L.Activation("relu", name="kernel_act")(x)
  x = L.Dense(3, activation="relu", name="fc_bias_x")(x)
  x = L.Dense(2, name="plain")(x)
  ms["names"] = Model(i, x)

  i = x = L.Input((3, 2), name="input")
  x = L.Conv1D(2, 2, activation="relu", name="c1d")(x)
  x = L.LSTM(2, return_sequences=True, name="lstm_a")(x)
  x = L.SimpleRNN(2, name="rnn_b")(x)
  x = L.Dense(2, name="dense")(x)
  ms["rnn"] = Model(i, x)
  return ms


def layer_rec(l):
  act = getattr(l, "activation", None)
  if act is None:
    a = "linear"
  elif isinstance(act, str):
    a = act
  else:
    a = getattr(act, "__name__", act.__class__.__name__)
  size = getattr(l, "units", None)
  if size is None:
    size = getattr(l, "filters", None)
  return {"name": l.name, "cls": l.__class__.__name__, "use_bias": bool(getattr(l, "use_bias", True)),
          "act": a, "size": int(size or 0)}


def rnn_cfg(default_cfg):
  c = copy.deepcopy(default_cfg)
  c["recurrent_activation"] = {"binary": 1, "quantized_sigmoid(4)": 4, "quantized_sigmoid(8)": 8}
  return c


def small_cfg():
  return {"kernel": {"binary": 1, "ternary": 2, "quantized_bits(4,0,1)": 4},
          "bias": {"quantized_bits(4,0,1)": 4, "quantized_bits(8,3,1)": 8},
          "activation": {"binary": 1, "quantized_relu(3,1)": 3, "quantized_relu(6,2)": 6},
          "linear": {"ternary": 2, "quantized_bits(8,2)": 8}}


def qm_configs(tier, default_cfg):
  """(model key, limit, config name, kwargs) — every entry aims at a branch of the model"""
  S = "small"
  D = "default"
  R = "rnn"
  out = [
      # per-class numeric limits, Activation entry, default fill-in through _adjust_limit
      ("mlp", {"Dense": [4, 8, 3], "Activation": [4]}, S, {}),
      ("mlp", {"Dense": [2], "default": 4, "Activation": [3]}, S, {}),
      ("mlp", {"Dense": [8, 8, 2]}, S, {"activation_bits": 4}),
      # role limits in decreasing order: a role filtered with another role's limit exceeds its own
      ("mlp", {"Dense": [4, 4, 1], "Activation": [1]}, D, {"activation_bits": 1}),
      ("conv", {"Conv2D": [8, 4, 1], "DepthwiseConv2D": [8, 4, 2], "Dense": [8, 4, 3]}, S, {"activation_bits": 2}),
      # pattern groups (d0,d1 share), pattern + class, singleton lists -> Fixed
      ("mlp", {"^d[01]$": [2, 8, 3], "Dense": [4, 4, 6], "Activation": [6]}, S, {}),
      ("mlp", {"Dense": [1, 4, 1], "Activation": [1]}, S, {}),
      ("mlp", {"d.*": [4, 8, 6], "act.*": [3]}, S, {}),
      # list-valued limits
      ("mlp", {"Dense": [["binary", "quantized_bits(4,0,1)"], ["quantized_bits(8,3,1)"], 3],
               "Activation": [["quantized_relu(3,1)", "quantized_relu(6,2)"]]}, S, {}),
      # layer_indexes exclusion
      ("mlp", {"Dense": [2, 4, 3], "Activation": [3]}, S, {"layer_indexes": [1, 3, 4]}),
      ("mlp", {"^d[01]$": [2, 4, 3], "Dense": [4, 4, 3]}, S, {"layer_indexes": [2, 4]}),
      # filter tuning
      ("mlp", {"Dense": [1, 4, 1], "Activation": [1]}, S, {"tune_filters": "layer", "tune_filters_exceptions": "^d_out$"}),
      ("mlp", {"Dense": [1, 4, 1]}, S, {"tune_filters": "block", "tune_filters_exceptions": "^d_out$"}),
      ("mlp", {"Activation": [3]}, S, {"tune_filters": "block"}),
      # default configuration, conv model, BatchNormalization marked for conversion, linear Activation
      ("conv", {"Conv2D": [2, 4, 3], "DepthwiseConv2D": [2, 4, 4], "Dense": [1, 4, 4], "Activation": [2],
                "BatchNormalization": []}, D, {}),
      ("conv", {"Conv2D": [2, 4, 3], "Activation": [2]}, S, {"tune_filters": "layer"}),
      ("conv", {".*_a$": [2, 4, 2], "Dense": [4, 4, 4], "DepthwiseConv2D": [1, 4, 4]}, S, {}),
      ("conv", {"Conv2D": [1, 4, 1], "bn_.*": []}, S, {"layer_indexes": [1, 2, 3]}),
      # separable layers: two layers, different limits -> the shared pointwise variable
      ("sep", {"sep_1": [1, 4, 3], "SeparableConv2D": [4, 4, 3], "Dense": [1, 4, 4], "Activation": [1]}, S, {}),
      ("sep", {"SeparableConv2D": [2, 4, 1]}, S, {"tune_filters": "block"}),
      ("sep", {"sep_2": [1, 4, 1], "Dense": [2, 4, 4]}, S, {}),
      # substring dispatch on layer names
      ("names", {"Dense": [4, 8, 3], "Activation": [3]}, S, {}),
      ("names", {"Dense": [1, 4, 1], "kernel_.*": [2, 8, 3]}, S, {}),
      # un-anchored patterns that occur in the MIDDLE / at the END of other layer names: a limit key
      # selects a layer only when it matches from the START of the name (re.match)
      ("names", {"fc": [2, 8, 3], "act": [2]}, S, {}),
      ("names", {"_x$": [1, 4, 2], "bias": [2, 4, 3], "Dense": [4, 4, 4]}, S, {}),
      ("mlp", {"out": [2, 4, 3], "1": [1, 4, 1], "[01]$": [1, 4, 2]}, S, {}),
      ("conv", {"_a": [2, 4, 2], "b$": [1, 4, 2], "Dense": [4, 4, 4]}, S, {}),
      # PARTIAL class entries completed from a list default (`_adjust_limit`): the missing slot must receive
      # the default of ITS role.  4-element defaults [weight, bias, recurrent, activation] with
      # recurrent > activation and a non-recurrent class with 0 / 1 / 2 values: a fused relu / sigmoid must
      # stay within the ACTIVATION default; the scripts reach every activation option the code offers
      ("mlp", {"default": [4, 4, 8, 2], "Dense": [1], "Activation": [3]}, S, {}),
      ("mlp", {"default": [2, 8, 6, 1], "Dense": [2, 4]}, S, {"activation_bits": 2}),
      ("conv", {"default": [4, 4, 8, 2], "Conv2D": [2, 4], "Dense": [], "DepthwiseConv2D": [4]}, S, {}),
      ("names", {"default": [1, 4, 8, 3], "Dense": [1], "kernel_a.*": [3]}, S, {}),
      # 3-element default [weight, bias, activation], every role different; list-valued default slots
      ("mlp", {"default": [2, 8, 3], "Dense": [1], "Activation": [3]}, S, {}),
      ("conv", {"default": [1, 8, 6], "Conv2D": [], "DepthwiseConv2D": [1, 4], "Dense": [1]}, S, {}),
      ("mlp", {"default": [4, ["quantized_bits(8,3,1)"], ["ternary"], ["binary", "quantized_relu(3,1)"]],
               "Dense": [2]}, S, {}),
      # default 4-list whose recurrent slot is NARROWER than the activation one (a slot shifted the other way)
      ("mlp", {"default": [1, 8, 1, 6], "Dense": []}, S, {}),
  ]
  # SELECTED LAYER INDEXES in every legal argument form.  mlp layers: 0 input, 1 d0 (relu), 2 d1 (no bias),
  # 3 act_1, 4 d_out, 5 softmax.  The limit gives a 4-assignment space when every layer is selected (fused
  # activation of d0 x act_1), all of it asked for in the SECOND loop, i.e. only for selected layers.
  # Falsy-but-legal selections: empty list / tuple / range / array / set / frozenset (nothing selected: the
  # reference model must come back unquantized — NOT the same as None), [0] (only the input layer; a falsy
  # MEMBER), indexes past the end; singletons, tuples, ranges, arrays, numpy integers, duplicates, everything.
  LS = {"Dense": [1, 4, 3], "Activation": [3]}
  forms = [[], (), range(0), np.array([], dtype=np.int64), set(),
           [0], (5,), [7, 9], [3], (1,), range(2, 3), np.array([4]),
           (1, 4), range(1, 4), np.array([1, 3]), {2, 3}, [np.int64(1), np.int64(3)], [3, 1, 3, 1],
           range(0, 6)]
  for k, f in enumerate(forms):
    # every third form goes through the public wrapper AutoQKeras(..., layer_indexes=f, custom_tuner=stub)
    out.append(("mlp", dict(LS), S, dict({"layer_indexes": f, "_real": 1}, **({"_route": "AutoQKeras"} if k % 3 == 0 else {}))))
  out += [
      # the same under pattern groups / on the conv model (BatchNormalization marked for conversion)
      ("mlp", {"^d[01]$": [2, 4, 3], "Dense": [1, 4, 3]}, S, {"layer_indexes": (), "_real": 1}),
      ("conv", {"Conv2D": [1, 4, 1], "bn_.*": [], "Dense": [1, 4, 3]}, S, {"layer_indexes": range(0), "_real": 1}),
      ("conv", {"Conv2D": [1, 4, 1], "bn_.*": [], "Dense": [1, 4, 3]}, S, {"layer_indexes": np.array([2, 7]), "_real": 1}),
      # selection x filter tuning: an unselected layer keeps its units (C20_excluded_unchanged)
      ("mlp", {"Dense": [1, 4, 1]}, S, {"tune_filters": "layer", "layer_indexes": (1,), "_real": 1}),
      ("mlp", {"Dense": [1, 4, 1]}, S, {"tune_filters": "block", "layer_indexes": [], "_real": 1}),
      # HISTORY on one hyper-model: the public attribute `layer_indexes` re-assigned between trials
      # (None -> [] -> (1, 3) -> range(0) -> array([4]) -> None; and starting from the empty selection)
      ("mlp", dict(LS), S, {"layer_indexes": None, "_real": 1,
                            "_reselect": [[], (1, 3), range(0), np.array([4]), None]}),
      ("mlp", dict(LS), S, {"layer_indexes": [], "_real": 1, "_reselect": [None, (), [3]]}),
  ]
  if tier != "quick":
    out += [
        ("mlp", {"Dense": [8, 8, 8], "Activation": [8]}, D, {}),
        ("conv", {"Conv2D": [4, 4, 4], "DepthwiseConv2D": [4, 4, 4], "Dense": [4, 4, 4], "Activation": [4]}, D,
         {"tune_filters": "block"}),
        ("sep", {"SeparableConv2D": [4, 4, 4], "Dense": [4, 4, 4], "Activation": [4]}, D, {}),
        ("names", {"Dense": [4, 8, 4], "Activation": [4]}, D, {}),
    ]
  rnn = [
      ("rnn", {"Conv1D": [1, 4, 1], "lstm_a": [1, 4, 4, 1], "SimpleRNN": [4, 8, 4, 3], "Dense": [1, 4, 4]}, R, {}),
      ("rnn", {"LSTM": [2, 4], "SimpleRNN": [1, 4, 1, 1], "default": [4, 4, 4, 1]}, R, {}),
      # recurrent and non-recurrent classes completed from the same 4-element default: LSTM / SimpleRNN
      # take the recurrent slot, Conv1D / Dense must not
      ("rnn", {"default": [1, 4, 2, 1], "LSTM": [1], "SimpleRNN": [], "Conv1D": [1], "Dense": [1, 8]}, R, {}),
  ]
  return out, rnn


# --------------------------------------------------------------------------- streams

def stream_tables(run, ai, qc):
  o = core.run_driver("C20", [{"op": "tables"}])[0]
  impl = cfg_json(qc.default_quantization_config)
  run.case("tables")
  run.compared += 3
  cells = sum(len(f[1]) for f in impl)
  if o["default_config"] != impl:
    run.disagree("tables", "default_quantization_config", impl, o["default_config"])
  if o["registered"] != list(ai.REGISTERED_LAYERS):
    run.disagree("tables", "REGISTERED_LAYERS", ai.REGISTERED_LAYERS, o["registered"])
  if o["sequence"] != list(ai.SEQUENCE_LAYERS):
    run.disagree("tables", "SEQUENCE_LAYERS", ai.SEQUENCE_LAYERS, o["sequence"])
  run.extra["static_tables_compared"] = {"default_quantization_config_cells": cells,
                                         "REGISTERED_LAYERS": len(ai.REGISTERED_LAYERS),
                                         "SEQUENCE_LAYERS": len(ai.SEQUENCE_LAYERS)}


def stream_adjust(run, ai, rng, tier):
  classes = ["Dense", "Conv2D", "LSTM", "Bidirectional", "SeparableConv2D", "Activation", "my_pattern"]
  vals = [1, 2, 4, 8, ["binary"], ["a", "b"]]
  cases = []
  defaults = [None, 4, 6, [1, 2, 3], [1, 2, 3, 4], [1, 2], [1, 2, 3, 4, 5], [["binary"], 2, 3]]
  n = 160 if tier == "quick" else 1200
  for t in range(n):
    lim = {}
    d = defaults[t % len(defaults)]
    ks = [c for c in classes if rng.random() < 0.45]
    if d is not None and rng.random() < 0.5:
      lim["default"] = d
    for c in ks:
      ln = int(rng.integers(0, 6))
      lim[c] = [vals[int(rng.integers(0, len(vals)))] for _ in range(ln)]
    if d is not None and "default" not in lim:
      lim["default"] = d
    if t % 37 == 5:
      lim["Dense"] = 4                      # bare number under a class key -> len(int)
    cases.append(lim)
  lines, impls = [], []
  for lim in cases:
    try:
      hm = make_hm(ai, None, lim, {})
      impl = {"limit": lim_json(hm.limit)}
    except Exception as e:  # pylint: disable=broad-except
      impl = {"err": ERR.get(type(e).__name__, type(e).__name__)}
    lines.append({"op": "adjust", "limit": lim_json(lim)})
    impls.append(impl)
  outs = core.run_driver("C20", lines)
  for lim, impl, o in zip(cases, impls, outs):
    run.case(("adjust", core.json.dumps(lim, sort_keys=True)), sample={"adjust": lim, "impl": impl})
    run.compared += 1
    run.count("adjust_" + ("err_" + impl["err"] if "err" in impl else "ok"))
    if impl != o:
      run.disagree("adjust", lim, impl, o)
    if "err" not in impl:
      # clause: the limit the hyper-model works with is the user's dictionary completed by the DOCUMENTED
      # rule (missing weight / bias / recurrent / activation slot <- the default of THAT role)
      doc = doc_limit(lim, ai.REGISTERED_LAYERS, ai.SEQUENCE_LAYERS)
      if doc is not None:
        run.count("adjust_documented_judged")
        def roles_of(k, v):
          # what `_get_quantizer` can read of an entry: weight [0], bias [1], activation [-1] and, for a
          # recurrent class, the recurrent kernel [2]; other keys are compared whole
          if k in ai.REGISTERED_LAYERS and isinstance(v, list) and len(v) >= 3:
            return [v[0], v[1], v[-1]] + ([v[2]] if k in ai.SEQUENCE_LAYERS else [])
          return v
        got = dict((k, v) for k, v in impl["limit"])
        bad = [k for k in doc if k not in got or roles_of(k, got[k]) != roles_of(k, doc[k])]
        bad += [k for k in got if k not in doc]
        if bad or list(got) != list(doc):
          dflt = lim.get("default")
          run.violate("adjust_documented",
                      {"site": "_adjust_limit", "default": ("list%d" % len(dflt)) if isinstance(dflt, list) else "scalar",
                       "sequence_class": any(k in ai.SEQUENCE_LAYERS for k in bad)},
                      {"user_limit": lim, "hyper_model_limit": impl["limit"], "documented_limit": lim_json(doc),
                       "keys": bad, "replay": "AutoQKHyperModel(model, metrics, target, limit=user_limit).limit"},
                      mirrored=(impl == o))
      # clause: every registered class present has the positions _get_quantizer will index
      for k, v in impl["limit"]:
        if k in ai.REGISTERED_LAYERS and len(v) < (4 if k in ai.SEQUENCE_LAYERS else 3):
          run.violate("adjust_complete", {"site": "_adjust_limit"}, {"limit": lim, "adjusted": impl["limit"]},
                      mirrored=(impl == o))


def getq_cases(rng, tier, default_cfg):
  names = ["dense_1", "conv2d", "act_2", "kernel_fc", "fc_bias_x", "sep_1", "lstm_a", "default_x", "Dense_9"]
  classes = ["Dense", "Conv2D", "Activation", "SeparableConv2D", "LSTM", "ReLU"]
  suffixes = ["_kernel", "_bias", "_activation", "_pointwise_kernel", "_recurrent_kernel",
              "_recurrent_activation"]
  limits = [
      {"Dense": [4, 8, 3], "Conv2D": [2, 4, 4], "Activation": [4], "SeparableConv2D": [4, 4, 4],
       "LSTM": [4, 4, 4, 4]},
      {"^dense.*": [2, 4, 3], "Dense": [4, 4, 4], "act.*": [2], "sep_1": [1, 4, 2], "Activation": [8]},
      {"Dense": [["binary", "ternary"], ["quantized_bits(4,0,1)"], ["binary"]], "Activation": [["nope"]],
       "Conv2D": [0, 0, 0]},
      {"default": 4, "Dense": [1, 4, 1], ".*_[0-9]$": [2, 8, 3], "lstm.*": [2, 4]},
      {"Dense": [8, 8], "LSTM": [4, 4, 4, 8], "kernel.*": [2, 8, 3, 4]},
      # un-anchored keys occurring mid-name / at the end of a name (only a match from the start selects)
      {"fc": [2, 8, 3], "_x$": [1, 4, 2], "Dense": [4, 4, 4], "[0-9]": [2, 4, 1], "Activation": [3]},
  ]
  cfgs = [("default", default_cfg), ("rnn", rnn_cfg(default_cfg)), ("small", small_cfg())]
  n_seq = 60 if tier == "quick" else 500
  seqs = []
  for t in range(n_seq):
    lim = limits[t % len(limits)]
    cname, cfg = cfgs[(t // len(limits)) % len(cfgs)]
    calls = []
    for _ in range(int(rng.integers(3, 9))):
      nm = names[int(rng.integers(0, len(names)))]
      cls = classes[int(rng.integers(0, len(classes)))]
      suf = suffixes[int(rng.integers(0, len(suffixes)))]
      is_linear = bool(rng.random() < 0.15)
      calls.append((nm + suf, nm, cls, is_linear, int(rng.integers(0, 9))))
    seqs.append((lim, cname, cfg, calls))
  return seqs, names


def stream_getq(run, ai, rng, tier, default_cfg):
  seqs, names = getq_cases(rng, tier, default_cfg)
  lines, impls, metas = [], [], []
  for lim, cname, cfg, calls in seqs:
    try:
      hm = make_hm(ai, None, lim, cfg)
    except Exception:  # pylint: disable=broad-except
      continue
    hm.groups = {}
    mp = match_pairs(hm.limit, names)
    for head, nm, cls, is_linear, pick in calls:
      g_before = groups_json(hm.groups)
      # scripted index taken modulo the size of the option list actually offered
      probe = StubHP()
      hm_groups_copy = copy.deepcopy(hm.groups)
      try:
        hm._get_quantizer(probe, head, nm, cls, is_linear=is_linear)
      except Exception:  # pylint: disable=broad-except
        pass
      hm.groups = hm_groups_copy
      idx = pick % probe.dims[0] if probe.dims else 0
      hp = StubHP([idx])
      try:
        r = hm._get_quantizer(hp, head, nm, cls, is_linear=is_linear)
        impl = {"q": None if r[0] is None else [r[0], int(r[1])], "groups": norm_groups(groups_json(hm.groups)),
                "log": hp.rec}
      except Exception as e:  # pylint: disable=broad-except
        impl = {"err": ERR.get(type(e).__name__, type(e).__name__)}
        hm.groups = hm_groups_copy
      lines.append({"op": "getq", "limit": lim_json(hm.limit), "config": cfg_json(cfg), "matches": mp,
                    "script": [[k, v] for k, v in hp.idx.items()], "groups": g_before, "head": head,
                    "lname": nm, "cls": cls, "is_linear": is_linear})
      impls.append(impl)
      metas.append((hm.limit, cname, cfg, head, nm, cls, is_linear, g_before))
  outs = core.run_driver("C20", lines)
  for line, impl, o, meta in zip(lines, impls, outs, metas):
    limit, cname, cfg, head, nm, cls, is_linear, g_before = meta
    key = ("getq", cname, core.json.dumps(line["limit"]), head, cls, is_linear, core.json.dumps(g_before),
           core.json.dumps(line["script"]))
    run.case(key, sample={"getq": {"limit": line["limit"], "head": head, "cls": cls}, "impl": impl})
    run.compared += 1
    if "groups" in o:
      o = dict(o)
      o["groups"] = norm_groups(o["groups"])
    if "err" in o:
      o = {"err": o["err"]}
    mirrored = (impl == o)
    if not mirrored:
      run.disagree("getq", {k: line[k] for k in ("limit", "head", "lname", "cls", "is_linear", "groups", "script")},
                   impl, o)
    if "err" in impl:
      run.count("getq_err_" + impl["err"])
      continue
    pkey, found = resolve(limit, nm, cls)
    cached = found and any(g[0] == pkey for g in g_before) and not impl["log"]
    run.count("getq_" + ("none" if impl["q"] is None else ("cached" if cached else
                                                           ("pattern" if found else "class"))))
    for c in impl["log"]:
      run.count("getq_hp_" + c["k"])
    # clause oracle on the real result
    if pkey is None:
      if impl["q"] is not None:
        run.violate("outside_unquantized", {"site": "_get_quantizer"}, {"case": line, "impl": impl}, mirrored)
      continue
    if impl["q"] is None:
      run.violate("inside_quantized", {"site": "_get_quantizer"}, {"case": line, "impl": impl}, mirrored)
      continue
    q, b = impl["q"]
    field = ("linear" if is_linear else None)
    # the field/index the hyper-model used (the model's dispatch is compared above); the clause is
    # judged against the limit entry at that index
    fields = [f for f in FIELD_INDEX if q in cfg.get(f, {}) and cfg[f][q] == b]
    if not fields:
      run.violate("from_config", {"site": "_get_quantizer"}, {"case": line, "impl": impl}, mirrored)
    ok = False
    for f in fields:
      lv = lim_at(limit, pkey, FIELD_INDEX[f])
      if isinstance(lv, list):
        ok = ok or q in lv
      elif lv is not None:
        ok = ok or b <= lv
    if not ok:
      run.violate("within_limit", {"site": "_get_quantizer"}, {"case": line, "impl": impl}, mirrored)
    run.count("getq_limit_" + ("list" if any(isinstance(lim_at(limit, pkey, FIELD_INDEX[f]), list)
                                            for f in fields) else "num"))


def q_bits(obj):
  b = getattr(obj, "bits", None)
  return None if b is None else int(b)


def judge_qdict(run, limit, cfg, recs, excluded, qdict, mirrored, ctx, sel="subset"):
  """clauses on the dictionary the REAL quantize_model handed to model_quantize"""
  role_index = {"kernel_quantizer": ("kernel", 0), "depthwise_quantizer": ("kernel", 0),
                "bias_quantizer": ("bias", 1), "activation_quantizer": ("activation", -1),
                "pointwise_quantizer": ("kernel", 0), "recurrent_quantizer": ("kernel", 0),
                "recurrent_activation_quantizer": ("recurrent_activation", -1)}
  group_vals = {}
  for i, r in enumerate(recs):
    name, cls = r["name"], r["cls"]
    entry = qdict.get(name)
    pkey, found = resolve(limit, name, cls)
    if i in excluded or pkey is None:
      if entry is not None:
        run.violate("excluded_unquantized", {"site": "q_dict", "why": "index" if i in excluded else "outside",
                                             "selection": sel},
                    dict(ctx, layer=name, layer_index=i, entry=entry), mirrored)
      run.count("qdict_excluded" if i in excluded else "qdict_outside")
      continue
    if entry is None:
      run.count("qdict_no_entry_" + cls)
      continue
    items = [("activation_layer", entry)] if isinstance(entry, str) else list(entry.items())
    for role, q in items:
      if q is None:
        run.count("qdict_none_" + role)
        continue
      if role == "activation_layer":
        field, index = ("linear", 0) if r["act"] == "linear" else ("activation", -1)
      elif role in role_index:
        field, index = role_index[role]
      else:
        run.violate("unknown_key", {"site": "q_dict", "role": role}, dict(ctx, layer=name, entry=entry), mirrored)
        continue
      named = ("kernel" in name) or ("bias" in name)
      site = ("shared_variable" if role in ("pointwise_quantizer", "recurrent_quantizer") else
              "head_substring" if named else "q_dict")
      fq = cfg.get(field, {})
      if q not in fq:
        # group caches are shared across fields with the same index (kernel/linear, activation/recurrent_activation)
        alt = [f for f, ix in FIELD_INDEX.items() if ix == index and q in cfg.get(f, {})]
        if found and alt:
          run.count("qdict_cross_field_group")
          fq = cfg[alt[0]]
        else:
          run.violate("from_config", {"site": site, "role": role}, dict(ctx, layer=name, quantizer=q, field=field),
                      mirrored)
          continue
      lv = lim_at(limit, pkey, index)
      ok = (q in lv) if isinstance(lv, list) else (lv is not None and fq[q] <= lv)
      run.count("qdict_role_" + role)
      if not ok:
        run.violate("within_limit", {"site": site, "role": role},
                    dict(ctx, layer=name, quantizer=q, bits=fq[q], limit_key=pkey, limit_value=lv), mirrored)
      if found and role not in ("pointwise_quantizer", "recurrent_quantizer"):
        group_vals.setdefault((pkey, index), set()).add(q)
  for (pkey, index), vs in group_vals.items():
    run.count("qdict_group")
    if len(vs) > 1:
      run.violate("group_shared", {"site": "q_dict"}, dict(ctx, pattern=pkey, index=index, values=sorted(vs)),
                  mirrored)


def judge_qmodel(run, get_quantizer, limit, cfg, recs, excluded, model, qmodel, abits, mirrored, ctx, sel="subset"):
  """clauses on the REAL trial model returned by quantize_model"""
  qlayers = list(qmodel.layers)
  if [l.name for l in qlayers] != [r["name"] for r in recs]:
    run.violate("architecture", {"site": "layer_list"}, dict(ctx, got=[l.name for l in qlayers]), mirrored)
    return
  cfg_strs = {}
  for f in ("activation", "linear", "recurrent_activation"):
    for s in cfg.get(f, {}):
      try:
        cfg_strs.setdefault(str(get_quantizer(s)), []).append((f, s))
      except Exception:  # pylint: disable=broad-except
        pass
  for i, (r, ql) in enumerate(zip(recs, qlayers)):
    name, cls = r["name"], r["cls"]
    qcls = ql.__class__.__name__
    pkey, found = resolve(limit, name, cls)
    if qcls not in (cls, "Q" + cls):
      run.violate("architecture", {"site": "class"}, dict(ctx, layer=name, cls=cls, got=qcls), mirrored)
    size0 = r["size"]
    size1 = layer_rec(ql)["size"]
    if size1 != size0 and size1 not in [max(int(size0 * f), 1) for f in FILTER_RANGE]:
      run.violate("architecture", {"site": "size"}, dict(ctx, layer=name, before=size0, after=size1), mirrored)
    if i in excluded or pkey is None:
      run.count("qmodel_untouched")
      if qcls != cls:
        run.violate("excluded_unquantized", {"site": "q_model", "why": "index" if i in excluded else "outside",
                                             "selection": sel},
                    dict(ctx, layer=name, layer_index=i, cls=cls, got=qcls,
                         replay="AutoQKHyperModel(model, metrics, target, limit=limit, quantization_config=small, "
                                "**kwargs).quantize_model(hp)[0].layers[layer_index]"), mirrored)
      continue
    if qcls == cls and cls != "Activation":
      run.count("qmodel_unconverted_" + cls)
      continue
    named = ("kernel" in name) or ("bias" in name)
    checks = []   # (role, field, index, string or None, bits)
    if qcls in ("QDense", "QConv1D", "QConv2D", "QDepthwiseConv2D", "QSimpleRNN", "QLSTM"):
      kq = getattr(ql, "depthwise_quantizer" if qcls == "QDepthwiseConv2D" else "kernel_quantizer")
      kqi = getattr(ql, "depthwise_quantizer_internal" if qcls == "QDepthwiseConv2D" else "kernel_quantizer_internal")
      checks.append(("kernel", "kernel", 0, kq, q_bits(kqi)))
      if getattr(ql, "use_bias", False) and ql.bias_quantizer is not None:
        checks.append(("bias", "bias", 1, ql.bias_quantizer, q_bits(ql.bias_quantizer_internal)))
      if qcls in ("QSimpleRNN", "QLSTM"):
        checks.append(("recurrent", "kernel", 0, ql.recurrent_quantizer, q_bits(ql.recurrent_quantizer_internal)))
      act = ql.activation
      if act is not None and hasattr(act, "bits"):
        checks.append(("fused_activation", "activation", -1, ("obj", str(act)), q_bits(act)))
      ract = getattr(ql, "recurrent_activation", None)
      if qcls == "QLSTM" and ract is not None and hasattr(ract, "bits"):
        checks.append(("recurrent_activation", "recurrent_activation", -1, ("obj", str(ract)), q_bits(ract)))
    elif qcls == "QActivation":
      s = ql.activation
      f, ix = ("linear", 0) if r["act"] == "linear" else ("activation", -1)
      checks.append(("activation_layer", f, ix, s, q_bits(ql.quantizer)))
    for role, field, index, s, bits in checks:
      site = ("shared_variable" if role == "recurrent" else
              "fused_activation" if role == "fused_activation" else "head_substring" if named else "q_model")
      run.count("qmodel_role_" + role)
      lv = lim_at(limit, pkey, index)
      if isinstance(s, tuple):
        hits = cfg_strs.get(s[1], [])
        in_cfg = bool(hits)
        names_ = [h[1] for h in hits]
      else:
        fields = [f for f, ix in FIELD_INDEX.items() if ix == index and s in cfg.get(f, {})]
        in_cfg = (s in cfg.get(field, {})) or (found and bool(fields))
        names_ = [s]
      if not in_cfg:
        run.violate("from_config", {"site": site, "role": role}, dict(ctx, layer=name, quantizer=str(s)), mirrored)
      if isinstance(lv, list):
        ok = any(n in lv for n in names_)
      else:
        ok = lv is not None and bits is not None and bits <= lv
      if not ok:
        run.violate("within_limit", {"site": site, "role": role},
                    dict(ctx, layer=name, quantizer=str(s), bits=bits, limit_key=pkey, limit_value=lv), mirrored)


def observed_applied(ql, cls):
  """what the real trial model carries on a layer, in the vocabulary of the Lean `applied`"""
  qcls = ql.__class__.__name__
  if qcls == cls and cls != "QActivation":
    return {"converted": False, "kernel": None, "bias": None, "activation": None}
  if qcls == "QActivation":
    return {"converted": True, "kernel": None, "bias": None, "activation": ql.activation}
  dw = qcls in ("QDepthwiseConv2D", "QSeparableConv1D", "QSeparableConv2D")
  k = getattr(ql, "depthwise_quantizer" if dw else "kernel_quantizer", None)
  act = ql.activation
  return {"converted": True, "kernel": k, "bias": getattr(ql, "bias_quantizer", None),
          "activation": None if (act is None or not hasattr(act, "bits")) else ("obj", str(act))}


def stream_qm(run, ai, rng, tier, default_cfg):
  from qkeras import get_quantizer
  models = build_models(tier)
  cfgs = {"default": default_cfg, "small": small_cfg(), "rnn": rnn_cfg(default_cfg)}
  main, rnn = qm_configs(tier, default_cfg)
  cap = {}
  real_mq = ai.model_quantize
  mode = {"real": True}

  def spy(model, q_dict, activation_bits, **kw):
    cap["q"] = copy.deepcopy(q_dict)
    cap["arch"] = [layer_rec(l) for l in model.layers]
    cap["abits"] = activation_bits
    if mode["real"]:
      try:
        return real_mq(model, q_dict, activation_bits, **kw)
      except Exception as e:  # pylint: disable=broad-except
        # below the modelled boundary (e.g. tf_keras rebuilding a layer whose units were rescaled)
        cap["mq_error"] = type(e).__name__
    return None

  ai.model_quantize = spy
  max_exh = 2000
  budget_real = {"quick": 7, "thorough": 30}.get(tier, 7)
  budget_fast = {"quick": 64, "thorough": 600}.get(tier, 64)
  # random scripts of a space too large to enumerate (on top of the every-option sweep); quick: 48 (was 64,
  # trimmed in the C20-7/-8 strengthening round to pay for the layer_indexes forms and the forgiving API stream)
  # V20 round: 48 -> 36 to pay for the size-history stream (szhist); exhaustive spaces and the every-option sweep
  # are untouched
  budget_sampled = {"quick": 36, "thorough": 600}.get(tier, 36)
  lines, impls, metas = [], [], []
  walls_qm = []
  try:
    for ci, (mk, lim, cname, kw) in enumerate(main + rnn):
      model = models[mk]
      cfg = cfgs[cname]
      kw = dict(kw)
      abits = kw.pop("activation_bits", 4)
      reselect = kw.pop("_reselect", None)
      real_cap = kw.pop("_real", None)
      route = kw.pop("_route", "direct")
      is_rnn = mk == "rnn"
      recs = [layer_rec(l) for l in model.layers]
      names = [r["name"] for r in recs]
      try:
        if route == "direct":
          hm = make_hm(ai, model, lim, cfg, activation_bits=abits, **kw)
        else:
          import qkeras.autoqkeras.forgiving_metrics.forgiving_bits as fb_
          hm = make_hm(ai, model, lim, cfg, target=fb_.ForgivingFactorBits(8, 8, 2, config={"default": ["parameters"]}),
                       route=route, activation_bits=abits, **kw)
        run.count("qm_route_" + route)
      except Exception as e:  # pylint: disable=broad-except
        # every configuration of this list is legal: the model's constructor accepts it
        run.case(("qm_ctor", ci))
        run.count("qm_ctor_raised")
        run.disagree("qm.ctor", {"model": mk, "limit": lim, "kwargs": kw_json(kw)},
                     {"err": type(e).__name__, "detail": str(e)[:200]}, "constructed")
        continue
      mp = match_pairs(hm.limit, names)
      exc = [n for n in names if hm.tune_filters_exceptions.search(n)]
      selections = [kw.get("layer_indexes")] + list(reselect or [])
      import time as _time
      _t0 = _time.time()
      for ki, sel in enumerate(selections):
        if ki > 0:
          hm.layer_indexes = sel          # public attribute, re-configured between trials of ONE object
          run.count("qm_reselect")
        li = li_canon(sel)
        run.count("qm_layer_indexes_" + li_form(sel) + ("_empty" if li == [] else ""))
        excluded = set() if li is None else {i for i in range(len(recs)) if i not in li}
        kwj = kw_json(kw) if ki == 0 else kw_json(kw, sel)
        if route != "direct":
          kwj["route"] = "AutoQKeras(model, goal=ForgivingFactorBits, custom_tuner=stub, limit=..., **kwargs).hypermodel"
        # discover the search space with one recorded dry run
        mode["real"] = False
        hm.groups = {}
        probe = StubHP()
        dims = None
        try:
          with quiet():
            hm.quantize_model(probe)
          dims = list(probe.dims)
        except Exception:  # pylint: disable=broad-except
          dims = list(probe.dims)
        space = int(np.prod(dims)) if dims else 1
        if space <= max_exh and space <= budget_fast:
          scripts = list(itertools.product(*[range(d) for d in dims]))
          run.count("qm_space_exhaustive")
        else:
          # rnn model (each trial clones an LSTM, ~0.4 s): 8 random scripts (was 21) + the every-option sweep
          n = budget_sampled if not is_rnn else budget_sampled // 6
          if is_rnn and isinstance(lim.get("default"), list) and len(lim["default"]) == 4 and ci == len(main) + 2:
            n = budget_fast // 8          # the every-option sweep below already visits each slot's options
          scripts = [tuple(int(rng.integers(0, d)) for d in dims) for _ in range(n)]
          # every option of every dimension at least once
          for j, d in enumerate(dims):
            for v in range(d):
              sc = [int(rng.integers(0, dd)) for dd in dims]
              sc[j] = v
              scripts.append(tuple(sc))
          scripts.append(tuple(d - 1 for d in dims))
          run.count("qm_space_sampled")
        run.extra.setdefault("qm_spaces", []).append({"model": mk, "limit": lim, "dims": dims, "assignments": space,
                                                      "scripts_run": len(scripts),
                                                      "layer_indexes": None if sel is None else repr(sel)})
        n_real = budget_real if not is_rnn else max(2, budget_real // 5)
        if isinstance(lim.get("default"), list) and not is_rnn:
          # partial entries completed from a list default: the trial MODEL of every assignment of a small space
          n_real = max(n_real, min(len(scripts), 12))
        if real_cap is not None:
          n_real = real_cap
        real_ix = set(np.linspace(0, len(scripts) - 1, num=min(n_real, len(scripts)), dtype=int).tolist())
        for si, script in enumerate(scripts):
          mode["real"] = si in real_ix
          hm.groups = {}
          hp = StubHP(script)
          cap.clear()
          qmodel = None
          try:
            with quiet():
              qmodel, _ = hm.quantize_model(hp)
            impl = {"qdict": cap["q"], "arch": cap["arch"], "log": hp.rec}
          except Exception as e:  # pylint: disable=broad-except
            impl = {"err": ERR.get(type(e).__name__, type(e).__name__), "detail": str(e)[:200]}
          if hp.repeated:
            run.count("qm_repeated_hp_name")
          if cap.get("mq_error"):
            run.count("qm_model_quantize_raised_" + cap["mq_error"])
          # the MODEL starts from the user's dictionary (its `adjustLimit` is part of the run) ...
          lines.append({"op": "qm", "limit": lim_json(lim), "config": cfg_json(cfg), "matches": mp,
                        "script": [[k, v] for k, v in hp.idx.items()],
                        "script_f": [[k, v] for k, v in hp.idx_f.items()],
                        "exc": exc, "tune_filters": hm.tune_filters, "layer_indexes": li, "layers": recs,
                        "activation_bits": abits})
          impls.append(impl)
          obs = None
          if qmodel is not None:
            obs = [observed_applied(ql, r["cls"]) for r, ql in zip(recs, qmodel.layers)] \
                if len(qmodel.layers) == len(recs) else "layer-count"
          # ... and the ORACLE judges against the documented completion of the user's dictionary, derived
          # independently of `_adjust_limit` / `hm.limit` (the limit the user SET, not the one the code kept)
          doc = doc_limit(lim, ai.REGISTERED_LAYERS, ai.SEQUENCE_LAYERS)
          if doc is None:
            raise core.InfraError("qm configuration with a limit the constructor must refuse: %r" % (lim,))
          metas.append({"ci": ci, "ki": ki, "mk": mk, "lim": lim, "limit": doc, "hm_limit": copy.deepcopy(hm.limit),
                        "cfg": cfg, "recs": recs,
                        "excluded": excluded, "script": list(script), "abits": abits, "obs": obs,
                        "model": model, "qmodel": qmodel, "kw": kwj,
                        "sel": "none" if li is None else "empty" if not li else "subset"})
        run.extra["qm_spaces"][-1]["real_model_quantize_runs"] = len(real_ix)
      walls_qm.append(round(_time.time() - _t0, 1))
  finally:
    ai.model_quantize = real_mq
  run.extra["qm_config_wall_s"] = walls_qm

  outs = core.run_driver("C20", lines)
  for line, impl, o, m in zip(lines, impls, outs, metas):
    ctx = {"model": m["mk"], "limit": m["lim"], "kwargs": m["kw"], "script": m["script"],
           "activation_bits": m["abits"]}
    if m["hm_limit"] != m["limit"]:
      # the hyper-model completed the user's dictionary differently from the documented rule
      ctx["documented_limit"] = m["limit"]
      ctx["hyper_model_limit"] = m["hm_limit"]
      run.count("qm_hm_limit_differs_from_documented")
    run.case(("qm", m["ci"], m["ki"], tuple(m["script"])),
             sample={"qm": ctx, "hp_calls": len(impl.get("log", [])), "q_dict": impl.get("qdict")}
             if m["script"] and m["script"][0] == 1 else None)
    run.compared += 1
    if "err" in impl or "err" in o:
      run.count("qm_err_" + impl.get("err", "none"))
      if impl.get("err") != o.get("err"):
        run.disagree("qm", ctx, impl, o)
      continue
    mirrored = True
    if lim_json(m["hm_limit"]) != o["limit"]:
      run.disagree("qm.limit", ctx, lim_json(m["hm_limit"]), o["limit"])
      mirrored = False
    if impl["log"] != o["log"]:
      run.disagree("qm.hp_log", ctx, impl["log"], o["log"])
      mirrored = False
    if impl["qdict"] != o["qdict"]:
      run.disagree("qm.q_dict", ctx, impl["qdict"], o["qdict"])
      mirrored = False
    if impl["arch"] != o["arch"]:
      run.disagree("qm.arch", ctx, impl["arch"], o["arch"])
      mirrored = False
    for c in impl["log"]:
      run.count("qm_hp_" + c["k"])
    judge_qdict(run, m["limit"], m["cfg"], m["recs"], m["excluded"], impl["qdict"], mirrored, ctx, m["sel"])
    if m["sel"] == "empty":
      run.count("qm_empty_selection_trial")
    # architecture clause on the model handed to model_quantize
    for li_, (r0, r1) in enumerate(zip(m["recs"], impl["arch"])):
      if li_ in m["excluded"] and r1 != r0:
        # a layer outside the selected indexes is handed over exactly as it was (units / filters included)
        run.violate("excluded_unquantized", {"site": "pre_model_quantize", "why": "index", "selection": m["sel"]},
                    dict(ctx, layer_index=li_, before=r0, after=r1), mirrored)
      same = {k: r0[k] for k in r0 if k != "size"} == {k: r1[k] for k in r1 if k != "size"}
      if r1["size"] != r0["size"]:
        run.count("qm_scaled_layer")
      if not same or (r1["size"] != r0["size"] and
                      r1["size"] not in [max(int(r0["size"] * f), 1) for f in FILTER_RANGE]):
        run.violate("architecture", {"site": "pre_model_quantize"}, dict(ctx, before=r0, after=r1), mirrored)
    if m["qmodel"] is not None:
      run.count("qm_real_model_quantize")
      # tie of the few model_quantize lines mirrored by `applied`
      app_ok = True
      if m["obs"] == "layer-count":
        app_ok = False
      else:
        for (nm, a), ob, r in zip(o["applied"], m["obs"], m["recs"]):
          if r["cls"] not in ("Dense", "Conv1D", "Conv2D", "DepthwiseConv2D", "SeparableConv1D", "SeparableConv2D",
                              "Activation"):
            continue
          exp = dict(a)
          got = dict(ob)
          if isinstance(got["activation"], tuple):
            got["activation"] = got["activation"][1]
            if exp["activation"] is not None:
              try:
                exp["activation"] = str(get_quantizer(exp["activation"]))
              except Exception:  # pylint: disable=broad-except
                pass
          run.compared += 1
          if exp != got:
            app_ok = False
            run.disagree("qm.applied", dict(ctx, layer=nm), got, exp)
      judge_qmodel(run, get_quantizer, m["limit"], m["cfg"], m["recs"], m["excluded"], m["model"], m["qmodel"],
                   m["abits"], mirrored and app_ok, ctx, m["sel"])
  return models


def stream_delta(run, fb, rng, tier):
  params = [(8.0, 8.0, 2.0), (4.0, 16.0, 2.0), (1.0, 0.5, 1.5), (20.0, 3.0, 4.0), (0.25, 8.0, 1.0625), (8.0, 8.0, 10.0)]
  refs = [1, 7, 1000, 3408, 65536, 10 ** 6 + 3, 2 ** 31 - 1, 2 ** 40 + 5]
  lines, impls, metas = [], [], []
  for (dp, dn, rate) in params:
    for ref in refs:
      for stress in (1.0, 0.5):
        t = fb.ForgivingFactorBits(dp, dn, rate, stress=stress)
        t.reference_size = np.int64(ref) * stress
        rs = float(t.reference_size)
        near = {int(rs)} | {max(1, int(rs) + d) for d in (-3, -2, -1, 1, 2, 3)}
        far = {max(1, int(rs * f)) for f in (0.01, 0.1, 0.25, 0.5, 0.9, 0.999, 1.001, 1.1, 2, 4, 10, 100)}
        rnd = {int(x) for x in rng.integers(1, max(2, int(4 * rs)), size=6 if tier == "quick" else 40)}
        trials = sorted(x for x in (near | far | rnd) if x >= 1)
        vals = []
        for tr in trials:
          t.trial_size = np.int64(tr)
          d = t.delta()
          with np.errstate(all="ignore"):
            a = np.log(t.reference_size / t.trial_size)
            b = np.log(t.rate)
          vals.append((tr, float(d)))
          lines.append({"op": "delta", "ref": core.rj(t.reference_size), "trial": core.rj(tr),
                        "dp": core.rj(t.delta_p), "dn": core.rj(t.delta_n), "a": core.rj(a), "b": core.rj(b)})
          impls.append({"delta": core.rj(float(d)), "log_arg": core.rj(float(t.reference_size / t.trial_size))})
          metas.append((dp, dn, rate, rs, tr))
        # clause oracle on the real values
        for (t1, d1), (t2, d2) in zip(vals, vals[1:]):
          if not d1 > d2:
            run.violate("delta_monotone", {"site": "delta"},
                        {"params": [dp, dn, rate], "ref": rs, "t1": t1, "d1": d1, "t2": t2, "d2": d2}, True)
        for tr, d in vals:
          cl = None
          if tr == rs and d != 0:
            cl = "delta_zero"
          elif tr < rs and not d > 0:
            cl = "delta_sign"
          elif tr > rs and not d < 0:
            cl = "delta_sign"
          run.count("delta_" + ("zero" if tr == rs else "below" if tr < rs else "above"))
          if cl:
            run.violate(cl, {"site": "delta"}, {"params": [dp, dn, rate], "ref": rs, "trial": tr, "delta": d}, True)
  outs = core.run_driver("C20", lines)
  for line, impl, o, meta in zip(lines, impls, outs, metas):
    run.case(("delta",) + meta)
    run.compared += 1
    got = {"delta": o["delta"], "log_arg": o["log_arg"]}
    if got != impl:
      run.disagree("delta", {"params": meta, "line": line}, impl, got)
  run.assumptions.append("np.log is passed to the model as an oracle value (DESIGN §3.2 device 2); the theorems "
                         "use Real.log; order/sign of float64 delta on the integer size grid is checked directly")


def sz_layer(l, get_quantizer):
  cls = l.__class__.__name__
  ws = l.get_weights()
  qs = l.get_quantizers() if hasattr(l, "get_quantizers") else []
  weights = []
  for i, w in enumerate(ws):
    b = None
    if i < len(qs) and qs[i]:
      b = q_bits(qs[i])
    weights.append([int(np.prod(w.shape)), b])
  act = getattr(l, "activation", None)
  act_name, act_bits, is_str = None, None, isinstance(act, str)
  if is_str:
    act_name = act
    if cls in ("QActivation", "Activation") and act not in ("linear", "softmax", "sigmoid"):
      try:
        act_bits = q_bits(get_quantizer(act))
      except Exception:  # pylint: disable=broad-except
        act_bits = None
  elif act is not None:
    act_name = getattr(act, "__name__", None)
    act_bits = q_bits(act)
  try:
    out = int(np.prod(l.output.shape[1:]))
  except Exception:  # pylint: disable=broad-except
    out = 0
  return {"name": l.name, "cls": cls, "weights": weights, "out": out, "act_none": act is None,
          "act_is_str": is_str, "act_name": act_name, "act_bits": act_bits,
          "center": bool(getattr(l, "center", True)), "scale": bool(getattr(l, "scale", True))}


def stream_size(run, fb, ai, models, rng, tier, default_cfg):
  from qkeras import get_quantizer, QActivation, QBatchNormalization, QConv2D, QDense
  from qkeras.utils import model_quantize
  from tensorflow.keras import layers as L
  from tensorflow.keras.models import Model
  cands = []
  for mk in ("mlp", "conv"):
    cands.append((mk, models[mk]))
  # trial models with assorted quantizers, built through the real model_quantize
  qd = {"d0": {"kernel_quantizer": "binary", "bias_quantizer": "quantized_bits(4,0,1)"},
        "d1": {"kernel_quantizer": "ternary"}, "act_1": "quantized_relu(3,1)",
        "d_out": {"kernel_quantizer": "quantized_po2(4,1)", "bias_quantizer": "quantized_bits(8,3,1)"}}
  cands.append(("mlp_q", model_quantize(models["mlp"], qd, 5)))
  qd = {"conv_a": {"kernel_quantizer": "quantized_bits(2,1,1,alpha=1.0)", "bias_quantizer": "quantized_po2(4,8)",
                   "activation_quantizer": "quantized_relu(6,2)"},
        "bn_a": {}, "lin_a": "quantized_bits(8,2)", "dw_b": {"depthwise_quantizer": "stochastic_ternary"},
        "act_b": "ternary", "fc": {"kernel_quantizer": "stochastic_binary"}}
  cands.append(("conv_q", model_quantize(models["conv"], qd, 3)))
  i = x = L.Input((6, 6, 2), name="input")
  x = QConv2D(3, (2, 2), kernel_quantizer="binary", bias_quantizer="quantized_bits(4,0,1)",
              activation="quantized_relu(3,1)", name="c")(x)
  x = QActivation("quantized_relu(5,1)", name="qa")(x)
  x = L.Activation("sigmoid", name="sg")(x)
  x = L.Activation("relu", name="re")(x)
  x = L.BatchNormalization(name="bn", center=False)(x)
  x = QBatchNormalization(name="qbn", scale=False)(x)
  x = L.DepthwiseConv2D((2, 2), name="dw")(x)
  x = L.Flatten(name="flatten")(x)
  x = QDense(4, kernel_quantizer="ternary", use_bias=False, activation="softmax", name="qd")(x)
  x = L.Dense(4, activation="softmax", name="d")(x)
  cands.append(("mixed", Model(i, x)))
  cfgs = [
      dict(input_bits=8, output_bits=8, ref_bits=8, config={"default": ["parameters", "activations"]}),
      dict(input_bits=7, output_bits=9, ref_bits=6, config={"default": ["parameters", "activations"],
                                                            "Flatten": [], "BatchNormalization": ["parameters"]}),
      dict(input_bits=4, output_bits=16, ref_bits=32, config={"default": ["activations"], "QDense": ["parameters"]}),
      dict(input_bits=8, output_bits=8, ref_bits=8, config={"Dense": ["parameters"], "QDense": ["parameters"],
                                                            "QActivation": ["activations"]}),
  ]
  lines, impls, metas = [], [], []
  for mk, model in cands:
    recs = [sz_layer(l, get_quantizer) for l in model.layers]
    for c in cfgs:
      t = fb.ForgivingFactorBits(8, 8, 2, **c)
      try:
        tot, p, a, d = t.compute_model_size(model)
        impl = {"total": int(tot), "p": int(p), "a": int(a),
                "rows": [[k, int(v["parameters"]), int(v["activations"]), int(v["total"])] for k, v in d.items()]}
      except AssertionError:
        impl = {"err": "assert"}
      lines.append({"op": "size", "input_bits": c["input_bits"], "output_bits": c["output_bits"],
                    "ref_bits": c["ref_bits"], "config": [[k, v] for k, v in c["config"].items()], "layers": recs})
      impls.append(impl)
      metas.append((mk, core.json.dumps(c, sort_keys=True)))
      # clause oracle: elements x bits, from the layers themselves (independent of the model's branches)
      if "err" not in impl and c["config"] == {"default": ["parameters", "activations"]}:
        exp = 0
        for l, r in zip(model.layers, recs):
          cls = r["cls"]
          if cls in ("Dense", "Conv1D", "Conv2D", "DepthwiseConv2D", "QDense", "QConv1D", "QConv2D",
                     "QDepthwiseConv2D"):
            exp += sum(n * (b if b is not None else c["ref_bits"]) for n, b in r["weights"])
          row = d.get(l.name)
          if cls in ("Dense", "Conv1D", "Conv2D", "DepthwiseConv2D", "QDense", "QConv1D", "QConv2D",
                     "QDepthwiseConv2D") and row is not None:
            pe = sum(n * (b if b is not None else c["ref_bits"]) for n, b in r["weights"])
            run.count("size_weight_layer")
            if int(row["parameters"]) != pe:
              run.violate("size_bits", {"site": "_param_size", "cls": cls},
                          {"model": mk, "layer": l.name, "got": int(row["parameters"]), "expected": pe}, True)
  outs = core.run_driver("C20", lines)
  for impl, o, meta in zip(impls, outs, metas):
    run.case(("size",) + meta, sample={"size": meta[0], "impl": {k: impl[k] for k in impl if k != "rows"}})
    run.compared += 1
    if impl != o:
      run.disagree("size", meta, impl, o)


def stream_delta_models(run, ai, fb, models, default_cfg):
  """real get_reference / get_trial / delta on a reference model and trials of different sizes"""
  cfg = small_cfg()
  model = models["mlp"]
  vals = []
  for lim in ({"Dense": [1, 4, 1], "Activation": [1]}, {"Dense": [4, 8, 6], "Activation": [6]}):
    t = fb.ForgivingFactorBits(8, 8, 2, config={"default": ["parameters", "activations"]})
    hm = make_hm(ai, model, lim, cfg, target=t)
    for script in ([0] * 12, [1] * 12, [2, 1, 2, 1, 2, 1, 2, 1, 2, 1, 2, 1]):
      hm.groups = {}
      hp = StubHP(script)
      hp.script = [s % 2 for s in script] if lim["Dense"][0] == 1 else script
      try:
        with quiet():
          qm, _ = hm.quantize_model(hp)
      except Exception:  # pylint: disable=broad-except
        continue
      ref = float(t.get_reference(model))
      tr = int(t.get_trial(qm))
      d = float(t.delta())
      vals.append((tr, d, ref))
      run.case(("delta_model", core.json.dumps(lim), tuple(script)))
      run.count("delta_model_" + ("below" if tr < ref else "above" if tr > ref else "equal"))
      if (tr < ref and not d > 0) or (tr > ref and not d < 0) or (tr == ref and d != 0):
        run.violate("delta_sign", {"site": "delta_on_models"}, {"ref": ref, "trial": tr, "delta": d}, True)
  vals.sort()
  for (t1, d1, _), (t2, d2, _) in zip(vals, vals[1:]):
    if t1 < t2 and not d1 > d2:
      run.violate("delta_monotone", {"site": "delta_on_models"}, {"t1": t1, "d1": d1, "t2": t2, "d2": d2}, True)
  # self-comparison: the reference model scored against itself
  t = fb.ForgivingFactorBits(8, 8, 2, config={"default": ["parameters", "activations"]})
  t.get_reference(model)
  t.get_trial(model)
  run.count("delta_model_self")
  if float(t.delta()) != 0.0:
    run.violate("delta_zero", {"site": "delta_on_models"}, {"delta": float(t.delta())}, True)
  # get_reference / get_trial are compute_model_size (x stress) EXACTLY, at every magnitude: a large
  # reference (> 2^24 bits, odd number of bits so that no narrower float type can hold it) and two
  # trials that differ by a few bits must be told apart; the reference scored against itself is 0
  from qkeras import QDense
  from tensorflow.keras import layers as L
  from tensorflow.keras.models import Model

  def big(kq, bq, units=1501, n_in=1499):
    i = L.Input((n_in,), name="input")
    x = QDense(units, kernel_quantizer=kq, bias_quantizer=bq, name="big")(i)
    return Model(i, x)
  big_models = [("big8_3", big("quantized_bits(8,0,1)", "quantized_bits(3,0,1)")),
                ("big8_2", big("quantized_bits(8,0,1)", "quantized_bits(2,0,1)")),
                ("big8_1", big("quantized_bits(8,0,1)", "binary")),
                ("small", models["mlp"])]
  sized = []
  for stress in (1.0, 0.5):
    for name, bm in big_models:
      t = fb.ForgivingFactorBits(8, 8, 2, stress=stress, config={"default": ["parameters", "activations"]})
      exact = int(t.compute_model_size(bm)[0])
      ref = t.get_reference(bm)
      tr = t.get_trial(bm)
      run.case(("size_api", name, stress))
      run.count("size_api_" + ("large" if exact >= 2 ** 24 else "small"))
      det = {"model": name, "stress": stress, "compute_model_size": exact, "get_reference": float(ref),
             "get_trial": float(tr), "trial_type": type(tr).__name__}
      if core.frac(tr) != exact:
        run.violate("size_bits", {"site": "get_trial"}, det, False)
      if core.frac(ref) != core.frac(exact) * core.frac(stress):
        run.violate("size_bits", {"site": "get_reference"}, det, False)
      if stress == 1.0:
        d0 = float(t.delta())
        if d0 != 0.0:
          run.violate("delta_zero", {"site": "delta_on_models", "size": "large" if exact >= 2 ** 24 else "small"},
                      dict(det, delta=d0), False)
        sized.append((exact, name, bm))
  # trials of slightly different size against one large reference: strictly ordered bonus
  t = fb.ForgivingFactorBits(8, 8, 2, config={"default": ["parameters", "activations"]})
  t.get_reference(big_models[0][1])
  ds = []
  for exact, name, bm in sorted(sized, key=lambda z: z[0]):
    if name == "small":
      continue
    t.get_trial(bm)
    ds.append((exact, float(t.delta()), name))
  for (e1, d1, n1), (e2, d2, n2) in zip(ds, ds[1:]):
    run.count("delta_model_large_pair")
    if e1 < e2 and not d1 > d2:
      run.violate("delta_monotone", {"site": "delta_on_models", "size": "large"},
                  {"t1": e1, "d1": d1, "m1": n1, "t2": e2, "d2": d2, "m2": n2}, False)


def stream_ff_api(run, ai, fb, models, rng, tier):
  """The bonus as the search computes it: ONE ForgivingFactorBits object, `get_reference(model)` (directly or
  through the AutoQKHyperModel constructor, which stores the returned value as `reference_size`), then
  `get_trial(trial model)` / `delta()` for trial models of different sizes in a seeded order, a second
  `get_reference` (cached) and a re-assigned `stress` in between.  "Reference size" of the property = the value
  `get_reference` RETURNS; the clauses delta_zero / delta_sign / delta_monotone are judged in exact rationals on
  (returned reference, returned trial size, delta()), for every stress (1, 1/2, 2, 0.8, 3/4, 5/4 as python
  float / int / np.float32 / np.float64) x (delta_p, delta_n, rate) x size configuration x reference model;
  `reference_size` attribute == returned value; returned value == size x stress.  The same history goes to the
  Lean `runF` (getReference / getTrial / deltaObj, float64 instance, numpy's logs as oracle inputs)."""
  import fractions
  from qkeras import QDense
  from qkeras.utils import model_quantize
  from tensorflow.keras import layers as L
  from tensorflow.keras.models import Model

  def qb(b):
    return "quantized_bits(%d,0,1)" % b

  def tiny(kq=None, bq=None):
    i = L.Input((4,), name="input")
    if kq is None:
      x = L.Dense(3, name="t")(i)
    else:
      x = QDense(3, kernel_quantizer=kq, bias_quantizer=bq, name="t")(i)
    return Model(i, x)

  def uniform(model, b):
    qd = {}
    for l in model.layers:
      c = l.__class__.__name__
      if c in ("Dense", "Conv1D", "Conv2D"):
        qd[l.name] = {"kernel_quantizer": qb(b), "bias_quantizer": qb(b)}
      elif c == "DepthwiseConv2D":
        qd[l.name] = {"depthwise_quantizer": qb(b), "bias_quantizer": qb(b)}
    with quiet():
      return model_quantize(model, qd, 4)

  import time as _time
  _t0 = _time.time()
  cfg = small_cfg()
  hm_lim = {"Dense": [4, 8, 6], "Activation": [6]}
  # trial models: size(reference) x b/8 with parameters only -> equal to the stressed reference for stress = b/8
  fams = []
  tr = [("q%d" % b, tiny(qb(b), qb(b))) for b in (1, 4, 6, 8, 10, 16)]
  tr += [("q6_8", tiny(qb(6), qb(8))), ("q7_4", tiny(qb(7), qb(4)))]      # 96 bits = 0.8 x 120
  fams.append(("tiny", tiny(), tr))
  tr = [("u%d" % b, uniform(models["mlp"], b)) for b in (4, 6, 16)]
  hm0 = make_hm(ai, models["mlp"], hm_lim, cfg)
  for nm, script in (("hm_first", [0] * 12), ("hm_second", [1] * 12)):
    hm0.groups = {}
    with quiet():
      tr.append((nm, hm0.quantize_model(StubHP(script))[0]))
  fams.append(("mlp", models["mlp"], tr))
  fams.append(("conv", models["conv"], [("u%d" % b, uniform(models["conv"], b)) for b in (4, 16)]))

  stresses = [("1.0", 1.0), ("int 1", 1), ("0.5", 0.5), ("np.float32(0.5)", np.float32(0.5)), ("2.0", 2.0),
              ("int 2", 2), ("np.float64(0.8)", np.float64(0.8)), ("0.75", 0.75), ("1.25", 1.25),
              ("np.float32(0.8)", np.float32(0.8))]
  params = [(8, 8, 2), (4.0, 12.0, 4.0)]
  sizecfgs = [("parameters", {"default": ["parameters"]}),
              ("parameters+activations", {"default": ["parameters", "activations"]})]
  exact = {}

  def size_of(model, scn, sc):
    k = (id(model), scn)
    if k not in exact:
      exact[k] = int(fb.ForgivingFactorBits(8, 8, 2, config=copy.deepcopy(sc)).compute_model_size(model)[0])
    return exact[k]

  def rjn(x):
    return None if x is None else core.rj(float(x) if isinstance(x, np.ndarray) else x)

  lines, impls, metas = [], [], []
  n_obj = 0
  _t1 = _time.time()
  for fam, ref, trials in fams:
    for sname, stress in stresses:
      for pi, (dp, dn, rate) in enumerate(params):
        for scn, sc in sizecfgs:
          if pi == 1 and scn != "parameters":
            continue
          n_obj += 1
          kind = "one" if float(stress) == 1.0 else "other"
          route = "direct" if fam != "mlp" else ("hyper_model", "auto_qkeras", "direct")[n_obj % 3]
          first = None
          if route == "auto_qkeras":
            # the documented way: goal = {"type": "bits", "params": {..., "stress": s}} handed to AutoQKeras
            goal = {"type": "bits", "params": {"delta_p": dp, "delta_n": dn, "rate": rate, "stress": stress,
                                               "input_bits": 8, "output_bits": 8, "ref_bits": 8,
                                               "config": copy.deepcopy(sc)}}
            hm_ = make_hm(ai, ref, hm_lim, cfg, target=goal, route="AutoQKeras")
            t = hm_.target
            first = hm_.reference_size
          else:
            t = fb.ForgivingFactorBits(dp, dn, rate, stress=stress, config=copy.deepcopy(sc))
          events, steps = [], []
          base = {"reference_model": fam, "stress": sname, "delta_p_delta_n_rate": [dp, dn, rate],
                  "size_config": sc, "route": route,
                  "replay": "t = ForgivingFactorBits(delta_p, delta_n, rate, stress=stress, config=size_config); "
                            "r = t.get_reference(reference_model)  [route hyper_model: AutoQKHyperModel(reference_model, "
                            "metrics, target=t, ...).reference_size; route auto_qkeras: h = AutoQKeras(reference_model, "
                            "goal={type: bits, params: {..., stress}}, ...).hypermodel; t = h.target; r = h.reference_size]; s = t.get_trial(trial_model); d = t.delta()"}
          key = {"site": "api", "route": route, "stress": kind}

          def snap(ret):
            steps.append([rjn(ret), rjn(getattr(t, "reference_size", None)), rjn(getattr(t, "trial_size", None))])

          def ref_call(model, how, ref_size):
            if how == "auto_qkeras":
              r_ = first
            elif how == "hyper_model":
              r_ = make_hm(ai, model, hm_lim, cfg, target=t).reference_size
            else:
              r_ = t.get_reference(model)
            events.append(["ref", core.rj(ref_size)])
            snap(r_)
            # clause: the reference delta() scores against (the attribute) is the reference reported
            if core.frac(t.reference_size) != core.frac(r_):
              run.violate("reference_tie", key, dict(base, call=len(events), returned=float(r_),
                                                     reference_size_attribute=float(t.reference_size)), False)
            return r_

          s_ref = size_of(ref, scn, sc)
          r = ref_call(ref, route, s_ref)
          R = core.frac(r)
          if float(fractions.Fraction(s_ref) * core.frac(stress)) != float(r):
            run.violate("size_bits", {"site": "get_reference", "stress": kind},
                        dict(base, compute_model_size=s_ref, returned=float(r)), False)
          order = [int(j) for j in rng.permutation(len(trials))]
          seen = {}
          last = None
          for pos, j in enumerate(order):
            tname, tm = trials[j]
            s_tr = size_of(tm, scn, sc)
            trv = t.get_trial(tm)
            events.append(["trial", core.rj(s_tr)])
            snap(trv)
            with np.errstate(all="ignore"):
              a = np.log(r / trv)
              b = np.log(t.rate)
            d = float(t.delta())
            events.append(["delta", core.rj(a), core.rj(b)])
            snap(d)
            T, D = core.frac(trv), core.frac(d)
            rel = "equal" if T == R else "below" if T < R else "above"
            run.count("ffapi_stress_%s_%s" % (kind, rel))
            det = dict(base, trial_model=tname, position_in_history=pos, returned_reference=float(r),
                       reference_size_attribute=float(t.reference_size), returned_trial=float(trv), delta=d)
            if T != fractions.Fraction(s_tr):
              run.violate("size_bits", {"site": "get_trial", "stress": kind}, dict(det, compute_model_size=s_tr), False)
            if rel == "equal" and D != 0:
              run.violate("delta_zero", key, det, False)
            elif rel == "below" and not D > 0:
              run.violate("delta_sign", key, det, False)
            elif rel == "above" and not D < 0:
              run.violate("delta_sign", key, det, False)
            seen[T] = (D, tname)
            last = (tname, tm, trv, d)
            if pos == 1:
              # the reference is computed once: another model does not move it
              r = ref_call(tm, "direct", s_tr)
              if core.frac(r) != R:
                R, seen = core.frac(r), {}
            if pos == 3:
              other = 3.0 if kind == "one" else 1.0
              t.stress = other
              events.append(["stress", core.rj(other)])
              snap(None)
              r = ref_call(ref, "direct", s_ref)
              if core.frac(r) != R:
                R, seen = core.frac(r), {}
          ts = sorted(seen)
          for t1, t2 in zip(ts, ts[1:]):
            run.count("ffapi_monotone_pair")
            if not seen[t1][0] > seen[t2][0]:
              run.violate("delta_monotone", key,
                          dict(base, returned_reference=float(R), t1=float(t1), m1=seen[t1][1], d1=float(seen[t1][0]),
                               t2=float(t2), m2=seen[t2][1], d2=float(seen[t2][0])), False)
          # the k-th use of the object scores like a fresh twin
          tw = fb.ForgivingFactorBits(dp, dn, rate, stress=stress, config=copy.deepcopy(sc))
          tw.get_reference(ref)
          tw_tr = tw.get_trial(last[1])
          tw_d = float(tw.delta())
          if core.frac(tw_tr) != core.frac(last[2]) or tw_d != last[3]:
            run.violate("delta_history", key, dict(base, trial_model=last[0], used_object=[float(last[2]), last[3]],
                                                   fresh_twin=[float(tw_tr), tw_d]), False)
          run.case(("ffapi", fam, sname, pi, scn))
          lines.append({"op": "ffapi", "dp": core.rj(t.delta_p), "dn": core.rj(t.delta_n), "stress": core.rj(stress),
                        "events": events})
          impls.append(steps)
          metas.append(dict(base, events=events))
  _t2 = _time.time()
  outs = core.run_driver("C20", lines)
  for impl, o, meta in zip(impls, outs, metas):
    run.compared += len(impl)
    if o.get("steps") != impl:
      bad = [i for i, (x, y) in enumerate(zip(impl, o.get("steps", []))) if x != y]
      i0 = bad[0] if bad else -1
      run.disagree("ffapi", dict({k: v for k, v in meta.items() if k != "events"}, first_differing_call=i0,
                                 event=meta["events"][i0] if bad else None,
                                 columns="[returned, reference_size attribute, trial_size attribute]"),
                   impl[i0] if bad else impl, o.get("steps", o)[i0] if bad else o)
  run.extra["ffapi_objects"] = n_obj
  run.extra["ffapi_wall_s"] = {"build_trial_models": round(_t1 - _t0, 1), "histories": round(_t2 - _t1, 1),
                               "driver+compare": round(_time.time() - _t2, 1)}


W_CLASSES = ("Dense", "Conv1D", "Conv2D", "DepthwiseConv2D", "QDense", "QConv1D", "QConv2D", "QDepthwiseConv2D")


def oracle_row(rec, c):
  """(parameter bits, activation bits) the property prescribes for ONE layer, from the tensors of the layer
  itself (`sz_layer` record): every weight tensor elements x bits of the quantizer applied to it (reference width
  where none is), the output tensor elements x bits of the activation quantizer (reference width where none is
  applied, output width for softmax / a sigmoid layer, nothing for linear), the input tensor at the input width.
  None = class outside the clause (BatchNormalization, Flatten, recurrent, ...)."""
  cls, ref, out = rec["cls"], c["ref_bits"], rec["out"]
  if cls == "InputLayer":
    return 0, c["input_bits"] * out
  if cls in W_CLASSES:
    is_q = cls.startswith("Q")
    p = sum(n * (b if (is_q and b is not None) else ref) for n, b in rec["weights"])
    if rec["act_none"] or rec["act_name"] == "linear":
      a = 0
    elif not is_q:
      a = ref * out
    elif rec["act_name"] == "softmax":
      a = c["output_bits"] * out
    elif rec["act_is_str"]:
      return None
    else:
      a = (rec["act_bits"] if rec["act_bits"] is not None else ref) * out
    return p, a
  if cls in ("Activation", "QActivation"):
    if rec["act_name"] == "linear":
      return 0, 0
    if rec["act_name"] in ("softmax", "sigmoid"):
      return 0, c["output_bits"] * out
    return 0, (rec["act_bits"] if rec["act_bits"] is not None else ref) * out
  return None


def stream_size_history(run, ai, fb, models, rng, tier):
  """The size of a trial counts the tensors of the TRIAL model — on a USED ForgivingFactorBits object.

  ONE object per (reference model, size configuration, route): `get_reference(reference)` (directly or through
  the AutoQKHyperModel constructor, as the search does), then `get_trial` on a series of models whose layers carry
  the NAMES of the reference's layers but are not the reference's layers:
    * trials of the real hyper-model with filter tuning (`tune_filters` layer / block) and PARTIAL limits
      (pattern on one layer, class limit x layer_indexes, conv only), so that unquantized Dense / DepthwiseConv2D /
      BatchNormalization / Activation layers sit downstream of a widened / narrowed layer — every filter factor;
    * hand-built models with IDENTICAL layer names and other widths / inputs / activations / BN options;
    * partially `model_quantize`d copies; the reference itself;
  in a seeded order, with a trial measured BEFORE the reference on every other object and repeated measurements.
  Clauses, exact: size_bits (site trial_history: every row of `trial_size_dict`, the returned total, total_p/a_bits
  against `oracle_row` on the trial's own tensors), size_history (rows / totals == a FRESH twin object measuring the
  same model, all classes and size configurations; `get_reference_stats()` and `reference_size` after the trials
  == those of the reference), delta_sign / delta_zero (bonus judged against the oracle's trial size).  The same
  history goes to the Lean `runM` (getReferenceM / getTrialM)."""
  import fractions
  from qkeras import get_quantizer
  from qkeras.utils import model_quantize
  from tensorflow.keras import layers as L
  from tensorflow.keras.models import Model
  import time as _time
  _t0 = _time.time()

  def chain(n_in=8, units=(8, 6, 3), acts=("relu", "relu"), act="tanh", center=True):
    i = x = L.Input((n_in,), name="input")
    x = L.Dense(units[0], activation=acts[0], name="d0")(x)
    x = L.Dense(units[1], activation=acts[1], name="d1")(x)
    x = L.BatchNormalization(name="bn", center=center)(x)
    x = L.Activation(act, name="act")(x)
    x = L.Dense(units[2], name="out")(x)
    x = L.Activation("softmax", name="sm")(x)
    return Model(i, x)

  refs = {"chain": chain(), "mlp": models["mlp"], "conv": models["conv"]}
  cfg = small_cfg()
  # (reference, limit, kwargs): the selected layers are scaled, layers downstream of them stay unquantized
  tuned = [
      ("chain", {"^d0$": [1, 4, 1]}, {"tune_filters": "layer", "tune_filters_exceptions": "^out$"}),
      ("chain", {"Dense": [2, 4, 3]}, {"tune_filters": "layer", "layer_indexes": [1]}),
      ("chain", {"^d1$": [2, 4, 1]}, {"tune_filters": "block", "tune_filters_exceptions": "^out$"}),
      ("mlp", {"^d0$": [1, 4, 1]}, {"tune_filters": "layer"}),
      ("mlp", {"Dense": [1, 4, 1], "Activation": [1]}, {"tune_filters": "block", "layer_indexes": (1, 3)}),
      ("conv", {"^conv_a$": [2, 4, 3]}, {"tune_filters": "layer"}),
      ("conv", {"Conv2D": [2, 4, 3]}, {"tune_filters": "block", "_only": (0, 4)}),
  ]
  sizecfgs = [
      ("all_8", dict(input_bits=8, output_bits=8, ref_bits=8, config={"default": ["parameters", "activations"]})),
      ("all_7_9_6", dict(input_bits=7, output_bits=9, ref_bits=6, config={"default": ["parameters", "activations"]})),
      ("per_class", dict(input_bits=8, output_bits=16, ref_bits=8,
                         config={"Dense": ["parameters"], "QDense": ["parameters"], "Conv2D": ["parameters"],
                                 "QConv2D": ["parameters"], "DepthwiseConv2D": ["parameters", "activations"],
                                 "BatchNormalization": ["parameters"], "Activation": ["activations"],
                                 "QActivation": ["activations"]})),
  ]
  # --- trial models ----------------------------------------------------------------------------------------------
  trials = {k: [] for k in refs}          # reference key -> [(source, description, model)]
  hm_targets = []
  for rk, lim, kw in tuned:
    kw = dict(kw)
    only = kw.pop("_only", None)
    t0 = fb.ForgivingFactorBits(8, 8, 2, **copy.deepcopy(sizecfgs[0][1]))
    hm = make_hm(ai, refs[rk], lim, cfg, target=t0, **kw)
    probe = StubHP()
    hm.groups = {}
    try:
      with quiet():
        hm.quantize_model(probe)
    except Exception as e:  # pylint: disable=broad-except
      # below the modelled boundary: tf_keras rebuilds a QUANTIZED layer downstream of a scaled one from the
      # stale `build_config` of the reference (two adjacent scaled layers); such configurations are not used here
      run.count("szhist_probe_raised_" + type(e).__name__)
    dims = list(probe.dims)
    if int(np.prod(dims)) <= 6:
      scripts = list(itertools.product(*[range(d) for d in dims]))
    else:
      # every filter factor once (the other dimensions seeded), plus the all-last-options script
      scripts = []
      for j, d in enumerate(dims):
        if d == len(FILTER_RANGE):
          for v in range(d):
            sc = [int(rng.integers(0, dd)) for dd in dims]
            sc[j] = v
            scripts.append(tuple(sc))
      scripts.append(tuple(d - 1 for d in dims))
    if only is not None:
      scripts = [scripts[k_] for k_ in only if k_ < len(scripts)]
    mine = []
    for script in scripts:
      hm.groups = {}
      hp = StubHP(script)
      try:
        with quiet():
          qm, _ = hm.quantize_model(hp)
      except Exception as e:  # pylint: disable=broad-except
        run.count("szhist_trial_build_raised_" + type(e).__name__)
        continue
      desc = {"limit": lim, "kwargs": kw_json(kw), "hyper_parameters": {k: (v if isinstance(v, str) else float(v))
                                                                          for k, v in hp.values.items()}}
      mine.append(("filter_tuning", desc, qm))
    trials[rk] += mine
    hm_targets.append((rk, t0, hm, mine, lim, kw))
  hand = {
      "chain": [("d0 halved", chain(units=(4, 6, 3))), ("d0 doubled, d1 halved", chain(units=(16, 3, 3))),
                ("5 inputs", chain(n_in=5)), ("relu -> linear / tanh", chain(acts=("linear", "tanh"))),
                ("act tanh -> sigmoid", chain(act="sigmoid")), ("bn center=False", chain(center=False)),
                ("out 3 -> 7", chain(units=(8, 6, 7)))],
  }
  i = x = L.Input((6,), name="input")
  x = L.Dense(7, activation="tanh", name="d0")(x)
  x = L.Dense(3, use_bias=True, name="d1")(x)
  x = L.Activation("sigmoid", name="act_1")(x)
  x = L.Dense(5, name="d_out")(x)
  x = L.Activation("softmax", name="softmax")(x)
  hand["mlp"] = [("other widths, bias on d1, sigmoid", Model(i, x))]
  for rk, lst in hand.items():
    trials[rk] += [("same_names_rebuilt", {"change": d}, m) for d, m in lst]
  with quiet():
    trials["chain"].append(("model_quantize_partial", {"q_dict": "d1, act"}, model_quantize(
        refs["chain"], {"d1": {"kernel_quantizer": "ternary", "bias_quantizer": "quantized_bits(4,0,1)",
                               "activation_quantizer": "quantized_relu(3,1)"}, "act": "quantized_tanh(5)"}, 4)))
    trials["mlp"].append(("model_quantize_partial", {"q_dict": "d_out"}, model_quantize(
        refs["mlp"], {"d_out": {"kernel_quantizer": "binary", "bias_quantizer": "quantized_bits(8,3,1)"}}, 4)))
  for rk in refs:
    trials[rk].append(("reference_itself", {}, refs[rk]))
  _t1 = _time.time()

  recs_cache = {}

  def recs_of(m):
    if id(m) not in recs_cache:
      recs_cache[id(m)] = [sz_layer(l, get_quantizer) for l in m.layers]
    return recs_cache[id(m)]

  def rows_of(d):
    return [[k, int(v["parameters"]), int(v["activations"]), int(v["total"])] for k, v in d.items()]

  def rjn(x):
    return None if x is None else core.rj(float(x) if isinstance(x, np.ndarray) else x)

  def oint(x):
    return None if x is None else int(x)

  twin_cache = {}

  def twin(m, scn, sc):
    """a FRESH object measuring the model"""
    k = (id(m), scn)
    if k not in twin_cache:
      tot, p, a, d = fb.ForgivingFactorBits(8, 8, 2, **copy.deepcopy(sc)).compute_model_size(m)
      twin_cache[k] = (int(tot), int(p), int(a), rows_of(d))
    return twin_cache[k]

  lines, impls, pend = [], [], []
  n_obj = 0
  for rk, ref in refs.items():
    ref_names = {l.name: l.__class__.__name__ for l in ref.layers}
    for scn, sc in sizecfgs:
      for route in ("direct", "hyper_model"):
        for stress in ((1.0,) if (scn != "all_8" or route != "direct") else (1.0, 0.5)):
          n_obj += 1
          t = fb.ForgivingFactorBits(8, 8, 2, stress=stress, **copy.deepcopy(sc))
          events, steps = [], []
          base = {"reference_model": rk, "size_config": sc, "route": route, "stress": stress,
                  "replay": "t = ForgivingFactorBits(8, 8, 2, stress=stress, **size_config); r = t.get_reference("
                            "reference_model) [route hyper_model: AutoQKHyperModel(reference_model, metrics, target=t, "
                            "limit=..., tune_filters=...)]; s = t.get_trial(trial_model); t.trial_size_dict; t.delta()"}

          def snap(ret):
            st = {"ret": rjn(ret), "reference_size": rjn(getattr(t, "reference_size", None)),
                  "trial_size": rjn(getattr(t, "trial_size", None)), "reference_stats": None, "trial_stats": None}
            if hasattr(t, "reference_size_dict"):
              st["reference_stats"] = {"p": oint(getattr(t, "ref_p", None)), "a": oint(getattr(t, "ref_a", None)),
                                       "rows": rows_of(t.reference_size_dict)}
            if hasattr(t, "trial_size_dict"):
              st["trial_stats"] = {"p": oint(getattr(t, "total_p_bits", None)),
                                   "a": oint(getattr(t, "total_a_bits", None)), "rows": rows_of(t.trial_size_dict)}
            steps.append(st)

          order = [int(j) for j in rng.permutation(len(trials[rk]))]
          seq = [("trial", order[0])] if n_obj % 2 == 0 else []     # a trial measured BEFORE the reference
          seq.append(("ref", None))
          for pos, j in enumerate(order):
            seq.append(("trial", j))
            if pos % 7 == 3:
              seq.append(("trial", j))                               # the same model measured twice in a row
          R = None
          for kind, j in seq:
            if kind == "ref":
              if route == "hyper_model":
                r = make_hm(ai, ref, {"Dense": [4, 8, 6]}, cfg, target=t, tune_filters="layer").reference_size
              else:
                r = t.get_reference(ref)
              events.append(["ref", recs_of(ref)])
              snap(r)
              R = core.frac(r)
              continue
            src, desc, tm = trials[rk][j]
            recs = recs_of(tm)
            trv = t.get_trial(tm)
            events.append(["trial", recs])
            snap(trv)
            got = t.trial_size_dict
            tw_tot, tw_p, tw_a, tw_rows = twin(tm, scn, sc)
            tw = {r_[0]: r_ for r_ in tw_rows}
            run.case(("szhist", rk, scn, route, stress, len(events)))
            exp_tot = exp_p = exp_a = 0
            ctx = dict(base, trial_source=src, trial=desc, call=len(events),
                       reference_measured_before=R is not None)
            for l, rec in zip(tm.layers, recs):
              lc = sc["config"].get(rec["cls"], sc["config"].get("default"))
              if not lc:
                continue
              o_row = oracle_row(rec, sc)
              kind_l = ("quantized" if rec["cls"].startswith("Q") else
                        "unquantized_same_name" if ref_names.get(l.name) == rec["cls"] else "unquantized_other")
              row = got.get(l.name)
              g = None if row is None else (int(row["parameters"]), int(row["activations"]))
              e_row = o_row if o_row is not None else (tw[l.name][1], tw[l.name][2])
              exp_p += e_row[0] * ("parameters" in lc)
              exp_a += e_row[1] * ("activations" in lc)
              det = dict(ctx, layer=l.name, layer_class=rec["cls"],
                         weight_shapes=[list(w.shape) for w in l.get_weights()], output_elements=rec["out"],
                         size_model_says={"parameters": g and g[0], "activations": g and g[1]})
              run.count("szhist_row_" + kind_l + ("_in_clause" if o_row is not None else "_twin_only"))
              if o_row is not None and g != tuple(o_row):
                pend.append((len(lines), len(steps) - 1, "size_bits",
                             {"site": "trial_history", "layer": kind_l, "trial_source": src},
                             dict(det, elements_x_bits_of_the_trial_tensors={"parameters": o_row[0],
                                                                             "activations": o_row[1]})))
              if g != (tw[l.name][1], tw[l.name][2]):
                pend.append((len(lines), len(steps) - 1, "size_history",
                             {"site": "trial_row_vs_fresh_twin", "layer": kind_l, "trial_source": src},
                             dict(det, fresh_twin={"parameters": tw[l.name][1], "activations": tw[l.name][2]})))
            exp_tot = exp_p + exp_a
            if (int(trv), int(t.total_p_bits), int(t.total_a_bits)) != (exp_tot, exp_p, exp_a):
              pend.append((len(lines), len(steps) - 1, "size_bits",
                           {"site": "trial_history", "layer": "whole_model", "trial_source": src},
                           dict(ctx, returned=[int(trv), int(t.total_p_bits), int(t.total_a_bits)],
                                sum_elements_x_bits=[exp_tot, exp_p, exp_a])))
            if (int(trv), int(t.total_p_bits), int(t.total_a_bits)) != (tw_tot, tw_p, tw_a):
              pend.append((len(lines), len(steps) - 1, "size_history",
                           {"site": "trial_total_vs_fresh_twin", "trial_source": src},
                           dict(ctx, returned=[int(trv), int(t.total_p_bits), int(t.total_a_bits)],
                                fresh_twin=[tw_tot, tw_p, tw_a])))
            if R is not None and exp_tot > 0 and R > 0:
              # the bonus, judged against the size of the trial's own tensors
              d = core.frac(float(t.delta()))
              rel = "equal" if exp_tot == R else "below" if exp_tot < R else "above"
              run.count("szhist_delta_" + rel)
              if (rel == "equal" and d != 0) or (rel == "below" and not d > 0) or (rel == "above" and not d < 0):
                pend.append((len(lines), len(steps) - 1, "delta_zero" if rel == "equal" else "delta_sign",
                             {"site": "trial_history", "trial_source": src},
                             dict(ctx, returned_reference=float(R), trial_elements_x_bits=exp_tot,
                                  returned_trial=int(trv), delta=float(d))))
          # after the trials the reference statistics are still the reference's
          rt = twin(ref, scn, sc)
          if rows_of(t.get_reference_stats()) != rt[3] or \
              (oint(getattr(t, "ref_p", None)), oint(getattr(t, "ref_a", None))) != (rt[1], rt[2]) or \
              core.frac(t.reference_size) != R or R != fractions.Fraction(rt[0]) * core.frac(stress):
            pend.append((len(lines), len(steps) - 1, "size_history", {"site": "reference_stats_after_trials"},
                         dict(base, get_reference_stats=rows_of(t.get_reference_stats()), reference_rows=rt[3],
                              reference_size=float(t.reference_size), first_returned=float(R))))
          lines.append({"op": "szhist", "input_bits": sc["input_bits"], "output_bits": sc["output_bits"],
                        "ref_bits": sc["ref_bits"], "config": [[k, v] for k, v in sc["config"].items()],
                        "stress": core.rj(stress), "events": events})
          impls.append((base, steps, [e[0] for e in events]))
  # the hyper-models' own targets (the object the search scores with): every trial it generated
  for rk, t0, hm, mine, lim, kw in hm_targets:
    sc = sizecfgs[0][1]
    for src, desc, tm in mine:
      trv = t0.get_trial(tm)
      tw_tot, _, _, tw_rows = twin(tm, "all_8", sc)
      run.case(("szhist_hm", rk, core.json.dumps(desc, sort_keys=True, default=str)))
      run.count("szhist_hm_target_trial")
      if int(trv) != tw_tot or rows_of(t0.trial_size_dict) != tw_rows:
        bad = [(a_, b_) for a_, b_ in zip(rows_of(t0.trial_size_dict), tw_rows) if a_ != b_]
        run.violate("size_history", {"site": "hyper_model_target", "trial_source": src},
                    {"reference_model": rk, "trial": desc, "returned": int(trv), "fresh_twin": tw_tot,
                     "first_differing_row [name, parameters, activations, total] (used object, fresh twin)": bad[:1],
                     "replay": "hm = AutoQKHyperModel(reference_model, metrics, target=t, limit=limit, **kwargs); "
                               "q, _ = hm.quantize_model(hp); t.get_trial(q); t.trial_size_dict"}, False)
  _t2 = _time.time()
  outs = core.run_driver("C20", lines)
  agree = {}
  for li_, ((base, steps, kinds), o) in enumerate(zip(impls, outs)):
    msteps = o.get("steps", [])
    run.compared += len(steps)
    for si, st in enumerate(steps):
      ok = si < len(msteps) and msteps[si] == st
      agree[(li_, si)] = ok
      if not ok:
        run.disagree("szhist", dict(base, call=si + 1, event=kinds[si]), st, msteps[si] if si < len(msteps) else o)
        break
  seen = set()
  for li_, si, clause, key, det in pend:
    k = (clause, core.json.dumps(key, sort_keys=True))
    if k in seen and tier == "quick":
      run.count("szhist_violation_repeat")
      continue
    seen.add(k)
    run.violate(clause, key, det, agree.get((li_, si), False))
  run.extra["szhist"] = {"objects": n_obj, "trial_models": {k: len(v) for k, v in trials.items()},
                         "wall_s": {"build_trials": round(_t1 - _t0, 1), "histories": round(_t2 - _t1, 1),
                                    "driver+compare": round(_time.time() - _t2, 1)}}


def stream_score(run, ai, fb, rng, tier):
  """AutoQKHyperModel.adjusted_score: which metric the closure evaluates (argument forms None / "" / "accuracy" /
  "acc" / other string / callable x label and prediction shapes) and the float32 value metric * (1.0 + delta), with
  delta taken from a real ForgivingFactorBits object over trial sizes below / at / above the reference.  The three
  Keras accuracies are replaced by recording stubs that return the chosen metric value, so the comparison sees the
  selection and the arithmetic of `score` itself."""
  import tensorflow as tf
  picked = []
  cur = {"m": 0.0}
  def stub(kind):
    def f(y_true, y_pred):
      picked.append(kind)
      return tf.constant(cur["m"], dtype=tf.float32)
    return f
  names = {"binary_accuracy": "binary", "sparse_categorical_accuracy": "sparse", "categorical_accuracy": "categorical"}
  saved = {n: getattr(ai, n) for n in names}
  for n, k in names.items():
    setattr(ai, n, stub(k))
  shapes = [((4, 1), (4, 1)), ((4,), (4, 1)), ((4, 1), (4, 10)), ((4,), (4, 10)), ((4, 10), (4, 10)),
            ((4, 3, 1), (4, 3, 5)), ((4, 3, 5), (4, 3, 5)), ((4, 3), (4, 3, 1)), ((4, 2), (4, 2)), ((4, 1, 1), (4, 1))]
  args = [None, "", "accuracy", "acc", "categorical_accuracy", "mse", "Accuracy", "fn"]
  metrics = [0.0, 1.0, 0.75, 0.1, 0.3333333432674408, 0.9990000128746033]
  lines, impls, metas = [], [], []
  try:
    t = fb.ForgivingFactorBits(8.0, 8.0, 2.0)
    t.reference_size = np.float64(3408.0)
    n_rand = 4 if tier == "quick" else 40
    trials = sorted({1, 100, 1704, 3000, 3407, 3408, 3409, 4000, 6816, 10 ** 6} |
                    {int(x) for x in rng.integers(1, 20000, size=n_rand)})
    deltas = []
    for tr in trials:
      t.trial_size = np.int64(tr)
      deltas.append((tr, t.delta()))
    for arg in args:
      for (ys, ps) in shapes:
        yt = tf.zeros(ys, tf.float32); yp = tf.zeros(ps, tf.float32)
        for m in metrics:
          prev = None
          for tr, d in deltas:
            cur["m"] = m
            del picked[:]
            if arg == "fn":
              def custom(y_true, y_pred):
                picked.append("custom")
                return tf.constant(cur["m"], dtype=tf.float32)
              fn = ai.AutoQKHyperModel.adjusted_score(None, d, custom)
            else:
              fn = ai.AutoQKHyperModel.adjusted_score(None, d, arg)
            out = fn(yt, yp)
            val = float(np.asarray(out))
            kind = picked[0] if len(picked) == 1 else "calls=%r" % (picked,)
            key = ("score", repr(arg), ys, ps)
            m32 = float(np.float32(m))
            lines.append({"op": "score", "metric_arg": (None if arg is None else 0 if arg == "fn" else arg),
                          "yt_rank": len(ys), "yp_rank": len(ps), "yt_last": ys[-1], "yp_last": ps[-1],
                          "metric": core.rj(m32), "delta": core.rj(float(d))})
            impls.append({"kind": kind, "score": core.rj(val)})
            metas.append(key + (m, tr))
            run.count("score_" + kind)
            # clause oracles on the real values
            site = {"site": "adjusted_score", "arg": repr(arg)}
            det = {"shapes": [list(ys), list(ps)], "metric": m32, "trial": tr, "ref": 3408.0, "delta": float(d), "score": val}
            if str(out.dtype.name) != "float32":
              run.violate("score_dtype", site, dict(det, dtype=str(out.dtype.name)), True)
            if tr == 3408 and val != m32:
              run.violate("score_at_reference", site, det, True)
            if m32 > 0 and tr < 3400 and not val > m32:
              run.violate("score_smaller_higher", site, det, True)
            if m32 > 0 and tr > 3416 and not val < m32:
              run.violate("score_larger_lower", site, det, True)
            if prev is not None and m32 > 0 and not prev[1] >= val:
              run.violate("score_monotone", site, dict(det, prev_trial=prev[0], prev_score=prev[1]), True)
            prev = (tr, val)
  finally:
    for n, f in saved.items():
      setattr(ai, n, f)
  outs = core.run_driver("C20", lines)
  for line, impl, o, meta in zip(lines, impls, outs, metas):
    run.case(meta)
    run.compared += 1
    got = {"kind": o["kind"], "score": o["score"]}
    if got != impl:
      run.disagree("score", {"params": [repr(x) for x in meta], "line": line}, impl, got)
  run.assumptions.append("adjusted_score: the three Keras accuracy functions are replaced by recording stubs (their "
                         "own arithmetic is Keras code, outside the model); float32 product in the normal range")


def run(run: core.Run, tier: str):
  core.assert_repo_import()
  import qkeras.autoqkeras.autoqkeras_internal as ai
  import qkeras.autoqkeras.quantization_config as qc
  import qkeras.autoqkeras.forgiving_metrics.forgiving_bits as fb
  rng = np.random.default_rng(run.seed)
  default_cfg = copy.deepcopy(qc.default_quantization_config)
  run.extra["rule"] = (
      "stub hp drives the real AutoQKHyperModel on 5 tiny reference models (dense / conv+BN+depthwise / separable / "
      "names containing 'kernel','bias' / Conv1D+LSTM+SimpleRNN) x limit dictionaries aimed at every branch "
      "(class keys, regex groups, list limits, singleton -> Fixed, default fill-in, PARTIAL class entries next "
      "to 3- / 4-element / list-valued defaults with recurrent default wider and narrower than the activation "
      "default, layer_indexes, tune_filters layer/block); the clause oracle's limits come from the user's "
      "dictionary by the documented padding rule, independent of hm.limit; all index scripts when the space fits the tier budget, else seeded samples covering every "
      "option of every dimension; non-trivial = distinct (configuration, script); _get_quantizer call sequences "
      "with a shared group cache; delta on (delta_p, delta_n, rate, stress, integer sizes incl. ref, ref±1..3); "
      "forgiving-factor HISTORIES through get_reference/get_trial/delta on one object for 10 stress forms x 3 "
      "reference models x trial models whose size equals / undercuts / exceeds the STRESSED reference; "
      "compute_model_size on reference, model_quantize'd and hand-built mixed models x 4 size configurations; "
      "size HISTORIES (szhist): get_reference then get_trial on filter-tuned trials (every filter factor, partial "
      "limits), same-named rebuilt models, partially quantized copies, on one object per reference x size "
      "configuration x route, a trial before the reference on every other object; adjusted_score (metric selection over "
      "8 argument forms x 10 shape pairs, float32 metric * (1 + delta) over trial sizes around the reference)")
  import time
  walls = {}
  t0 = time.time()
  stream_tables(run, ai, qc)
  stream_adjust(run, ai, rng, tier)
  walls["tables+adjust"] = round(time.time() - t0, 1); t0 = time.time()
  stream_getq(run, ai, rng, tier, default_cfg)
  walls["getq"] = round(time.time() - t0, 1); t0 = time.time()
  models = stream_qm(run, ai, rng, tier, default_cfg)
  walls["qm"] = round(time.time() - t0, 1); t0 = time.time()
  stream_delta(run, fb, rng, tier)
  stream_delta_models(run, ai, fb, models, default_cfg)
  stream_ff_api(run, ai, fb, models, rng, tier)
  stream_score(run, ai, fb, rng, tier)
  walls["delta"] = round(time.time() - t0, 1); t0 = time.time()
  stream_size_history(run, ai, fb, models, rng, tier)
  walls["szhist"] = round(time.time() - t0, 1); t0 = time.time()
  stream_size(run, fb, ai, models, rng, tier, default_cfg)
  walls["size"] = round(time.time() - t0, 1)
  run.extra["stream_wall_s"] = walls
  run.assumptions.append("keras-tuner is replaced by a stub hp with its by-name semantics; re.match / "
                         "tune_filters_exceptions.search are evaluated by Python and passed to the model as tables")
