"""adapters between qtools quantizer_impl records and the Lean QRec protocol form"""
from . import core


def to_rec(q):
  mv = getattr(q, "max_val_po2", -1)
  try:
    mvj = None if float(mv) == -1 else core.rj(mv)
  except Exception:  # pylint: disable=broad-except
    mvj = None
  return {
      "mode": int(q.mode), "name": str(q.name), "bits": int(q.bits) if q.bits is not None else -2,
      "int_bits": int(q.int_bits), "is_signed": bool(q.is_signed),
      "is_floating_point": bool(q.is_floating_point), "is_po2": bool(q.is_po2),
      "max_val_po2": mvj, "use_01": bool(getattr(q, "use_01", False)),
  }


def rec_eq(a, b, ignore=("use_01",)):
  """compare an implementation record with a model record field by field"""
  diffs = {}
  for k in ("mode", "name", "bits", "int_bits", "is_signed", "is_floating_point", "is_po2", "max_val_po2"):
    if k in ignore:
      continue
    va, vb = a.get(k), b.get(k)
    if k == "max_val_po2" and va is not None and vb is not None:
      if core.unrj(va) != core.unrj(vb):
        diffs[k] = (va, vb)
    elif va != vb:
      diffs[k] = (va, vb)
  return diffs


def qkeras_types(tier, rng):
  """(label, qkeras quantizer or default-mode string) operand types, model-directed:
  every mode, both signednesses, width/int-bit extremes, po2 max values on both sides of 1"""
  from qkeras import quantizers as Q
  out = []
  maxb = 8 if tier == "quick" else 16
  bits_list = list(range(1, maxb + 1))
  for b in bits_list:
    ints = sorted(set([-2, -1, 0, 1, b - 1, b, b + 1, b + 2] + ([b // 2] if b > 2 else [])))
    for i in ints:
      for kn in (0, 1):
        if kn == 1 and b == 1 and tier == "quick" and i not in (0, 1):
          continue
        out.append(("quantized_bits(%d,%d,keep_negative=%d)" % (b, i, kn), Q.quantized_bits(b, i, keep_negative=kn)))
  for b in bits_list[: 8 if tier == "quick" else 12]:
    for i in sorted(set([0, 1, b - 1, b])):
      for ns in (0.0, 0.25):
        if b == 1 and i == 1 and ns != 0.0:
          continue  # degenerate: a "0/1" type (mode 4) that claims to be signed; outside the property
        out.append(("quantized_relu(%d,%d,negative_slope=%s)" % (b, i, ns),
                    Q.quantized_relu(b, i, negative_slope=ns)))
  for b in (2, 4, 8):
    out.append(("quantized_tanh(%d)" % b, Q.quantized_tanh(b)))
    out.append(("quantized_ulaw(%d,1)" % b, Q.quantized_ulaw(b, 1)))
  out += [("binary()", Q.binary()), ("binary(use_01=1)", Q.binary(use_01=True)),
          ("stochastic_binary()", Q.stochastic_binary()), ("bernoulli()", Q.bernoulli()),
          ("ternary()", Q.ternary()), ("stochastic_ternary()", Q.stochastic_ternary())]
  mvs = [None, 0.125, 0.25, 0.5, 1, 2, 4, 8, 16, 64, 3, 0.75, 0]
  for b in range(2, (8 if tier == "quick" else 10) + 1):
    for mv in mvs:
      out.append(("quantized_po2(%d,%s)" % (b, mv), Q.quantized_po2(b, mv)))
      out.append(("quantized_relu_po2(%d,%s)" % (b, mv), Q.quantized_relu_po2(b, mv)))
  out += [("fp32", "fp32"), ("fp16", "fp16"), ("int8", "int8")]
  return out


# ----------------------------------------------------------------------------- floating-point cells (C16)

def float_operands():
  """(label, factory argument) of the floating-point operand types, through every route that builds one:
  the default-quantizer strings, the `None` route (cfg.default_interm_quantizer), and the
  `quantizer_impl.FloatingPoint(bits)` class itself (cloned by make_quantizer)"""
  from qkeras.qtools.quantized_operators import quantizer_impl
  return [("fp16", "fp16"), ("fp32", "fp32"), ("None(default_interm_quantizer)", None),
          ("FloatingPoint(bits=16)", quantizer_impl.FloatingPoint(bits=16)),
          ("FloatingPoint(bits=32)", quantizer_impl.FloatingPoint(bits=32)),
          ("FloatingPoint(bits=64)", quantizer_impl.FloatingPoint(bits=64))]


def float_partner_operands():
  """(label, factory argument) of the non-float partners of the floating-point cells: every mode, both
  signednesses, and fixed-point types WIDER than the float widths (a width rule that forgets the
  `is_floating_point` mask shows only there)"""
  from qkeras import quantizers as Q
  return [
      ("int8", "int8"), ("int16", "int16"), ("int32", "int32"),
      ("quantized_bits(4,1,keep_negative=1)", Q.quantized_bits(4, 1, keep_negative=1)),
      ("quantized_bits(6,2,keep_negative=0)", Q.quantized_bits(6, 2, keep_negative=0)),
      ("quantized_bits(1,0,keep_negative=1)", Q.quantized_bits(1, 0, keep_negative=1)),
      ("quantized_bits(17,3,keep_negative=1)", Q.quantized_bits(17, 3, keep_negative=1)),
      ("quantized_bits(24,8,keep_negative=1)", Q.quantized_bits(24, 8, keep_negative=1)),
      ("quantized_bits(33,0,keep_negative=0)", Q.quantized_bits(33, 0, keep_negative=0)),
      ("quantized_bits(48,16,keep_negative=1)", Q.quantized_bits(48, 16, keep_negative=1)),
      ("quantized_bits(70,20,keep_negative=1)", Q.quantized_bits(70, 20, keep_negative=1)),
      ("quantized_relu(3,2)", Q.quantized_relu(3, 2)),
      ("quantized_relu(20,4)", Q.quantized_relu(20, 4)),
      ("quantized_relu(4,1,negative_slope=0.25)", Q.quantized_relu(4, 1, negative_slope=0.25)),
      ("quantized_relu(1,1)", Q.quantized_relu(1, 1)),
      ("quantized_tanh(4)", Q.quantized_tanh(4)), ("quantized_ulaw(8,1)", Q.quantized_ulaw(8, 1)),
      ("quantized_po2(4,None)", Q.quantized_po2(4, None)), ("quantized_po2(5,2)", Q.quantized_po2(5, 2)),
      ("quantized_po2(8,0.25)", Q.quantized_po2(8, 0.25)),
      ("quantized_relu_po2(4,None)", Q.quantized_relu_po2(4, None)),
      ("quantized_relu_po2(6,16)", Q.quantized_relu_po2(6, 16)),
      ("ternary()", Q.ternary()), ("stochastic_ternary()", Q.stochastic_ternary()),
      ("binary()", Q.binary()), ("stochastic_binary()", Q.stochastic_binary()),
      ("binary(use_01=1)", Q.binary(use_01=True)), ("bernoulli()", Q.bernoulli()),
  ]
