"""shared helpers of C04 / C05 (data-dependent scales on tensors)

* tensor generators: the "exact regime" (short dyadics, power-of-two group sizes: every float32 partial
  sum is exact whatever the reduction order), adversarial shapes (all-zero, zero channel, one huge
  element, huge / tiny magnitudes) and a "general" regime (random float32, inexact reductions);
* the SPEC of the grouping, written independently of the model (group id of a multi-index);
* exact-rational helpers for the clause oracle: power-of-two test, nearest exponent, band test.
"""
from fractions import Fraction as F
import itertools

import numpy as np

from . import core

DIMS = (1, 2, 4, 8)


def f32(x):
  return np.float32(x)


def fr(a):
  return [F(float(v)) for v in np.asarray(a, dtype=np.float64).ravel()]


def enc(fs):
  return [[f.numerator, f.denominator] for f in fs]


def dec(ps):
  return [F(int(p[0]), int(p[1])) for p in ps]


# ------------------------------------------------------------------ grouping spec

def spec_scale_axes(rank, sa, ch_last):
  """the axes along which scales differ (the complement is reduced)"""
  if sa is None:
    return [rank - 1] if ch_last else [0]
  return list(sa) if isinstance(sa, list) else [sa]


def spec_groups(shape, sa, eps, ch_last):
  """group id (hashable) of every flat position, from the documented meaning of scale_axis /
  elements_per_scale: one scale per block of `elements_per_scale` consecutive indices along every
  scale axis; every other axis is reduced.  Rank <= 1: every element is its own group."""
  rank = len(shape)
  n = int(np.prod(shape)) if rank else 1
  if rank <= 1:
    return list(range(n))
  axes = spec_scale_axes(rank, sa, ch_last)
  if eps is None:
    fac = [1] * len(axes)
  elif isinstance(eps, list):
    fac = list(eps)
  else:
    fac = [eps] * len(axes)
  out = []
  for idx in itertools.product(*[range(d) for d in shape]):
    out.append(tuple(idx[a] // f for a, f in zip(axes, fac)))
  return out


# ------------------------------------------------------------------ exact helpers

def is_pow2(f):
  if f <= 0:
    return False
  n, d = f.numerator, f.denominator
  return (n & (n - 1)) == 0 and (d & (d - 1)) == 0


def log2_exact(f):
  """exponent of a power of two"""
  return (f.numerator.bit_length() - 1) - (f.denominator.bit_length() - 1)


def floor_log2(f):
  """largest e with 2^e <= f (f > 0)"""
  e = f.numerator.bit_length() - f.denominator.bit_length()
  while F(2) ** e > f:
    e -= 1
  while F(2) ** (e + 1) <= f:
    e += 1
  return e


def nearest_exp(v):
  """round(log2 v) exactly: e with 2^(2e-1) <= v^2 < 2^(2e+1)"""
  return (floor_log2(v * v) + 1) // 2


def near_break(v, bits=16):
  """v within relative 2^-bits (in the square) of a breakpoint sqrt(2)*2^k"""
  f = floor_log2(v * v)
  lo = F(2) ** (f + 1) if f % 2 == 0 else F(2) ** f
  return abs(v * v - lo) * (1 << bits) <= lo


def ste32(x, y):
  """x + stop_gradient(-x + y) in float32"""
  x = np.float32(x)
  y = np.float32(y)
  return np.float32(x + np.float32(-x + y))


def rnd32(f):
  """nearest float32 of a Fraction (ties to even), as a Fraction"""
  if f == 0:
    return F(0)
  a = abs(f)
  e = max(floor_log2(a), -126)
  ulp = F(2) ** (e - 23)
  q = f / ulp
  fl = q.numerator // q.denominator
  r = q - fl
  if r < F(1, 2):
    k = fl
  elif r > F(1, 2):
    k = fl + 1
  else:
    k = fl if fl % 2 == 0 else fl + 1
  return k * ulp


# ------------------------------------------------------------------ generators

def shapes(rng, n, max_elems=256, ranks=(1, 2, 3, 4)):
  out = []
  while len(out) < n:
    r = int(rng.choice(ranks))
    sh = [int(rng.choice(DIMS)) for _ in range(r)]
    if 1 <= int(np.prod(sh)) <= max_elems:
      out.append(sh)
  return out


def exact_tensor(rng, shape, kind):
  """float32 tensor whose group sums are exact in float32 for any summation order:
  integers of at most 6 bits times one power of two per tensor (exponent spread 0)."""
  n = int(np.prod(shape)) if shape else 1
  if kind == "zeros":
    return np.zeros(shape, dtype=np.float32)
  g = int(rng.integers(-10, 5))
  if kind == "tiny":
    g = int(rng.integers(-24, -18))
  if kind == "huge":
    g = int(rng.integers(12, 18))
  ints = rng.integers(-40, 41, size=n)
  if kind == "sparse":
    ints = ints * (rng.random(n) < 0.3)
  x = (ints.astype(np.float64) * 2.0 ** g).astype(np.float32).reshape(shape)
  if kind == "zero_channel" and len(shape) >= 1:
    # zero a slice along the last AND the first axis (covers both data formats / scale axes)
    idx = [slice(None)] * len(shape)
    idx[-1] = int(rng.integers(0, shape[-1]))
    x[tuple(idx)] = 0
    idx = [slice(None)] * len(shape)
    idx[0] = int(rng.integers(0, shape[0]))
    x[tuple(idx)] = 0
  if kind == "one_big" and n > 1:
    j = int(rng.integers(0, n))
    x.reshape(-1)[j] = np.float32(40 * 2.0 ** (g + 9)) * (1 if rng.random() < 0.5 else -1)
  return x


def general_tensor(rng, shape, kind):
  n = int(np.prod(shape)) if shape else 1
  mag = {"normal": 1.0, "small": 1e-6, "large": 1e6}.get(kind, 1.0)
  x = (rng.standard_normal(n) * mag).astype(np.float32).reshape(shape)
  return x


def broadcast_scale(scale, shape):
  a = np.asarray(scale, dtype=np.float64)
  return np.broadcast_to(a, shape).astype(np.float64).ravel()
