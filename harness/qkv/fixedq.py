"""shared generation / execution for C01 and C02 (fixed-point quantizers at value level)

For every configuration: the model-directed input stream (every code's lattice point and rounding
breakpoint +-1,2 ulp, saturation edges, zeros / subnormals, +-(2^24-1) steps, random tensors), the
real quantizer run eagerly on float32, the Lean model (`drivers/C01.lean`) on the same exact
rationals, and exact-rational records for the clause oracles."""
from fractions import Fraction as F
import itertools

import numpy as np

from . import core


def ulps(x, ks=(-2, -1, 1, 2)):
  out = []
  for k in ks:
    v = np.float32(x)
    for _ in range(abs(k)):
      v = np.nextafter(v, np.float32(np.inf if k > 0 else -np.inf), dtype=np.float32)
    out.append(v)
  return out


def points(rng, step, lo, hi, n_random=24, extra=(), big=True):
  """float32 inputs aimed at the case splits of round/clip for codes lo..hi of size `step`"""
  step = float(step)
  ks = list(range(lo - 2, hi + 3))
  if len(ks) > 40:
    inner = rng.integers(lo, hi, size=24).tolist()
    ks = sorted(set(ks[:6] + ks[-6:] + inner + [-1, 0, 1]))
  pts = []
  for k in ks:
    for base in (k * step, (k + 0.5) * step):
      b = np.float32(base)
      pts.append(b)
      pts += ulps(b)
  pts += [np.float32(0.0), np.float32(-0.0), np.float32(1e-45), np.float32(-1e-45),
          np.float32(1.1754942e-38), np.float32(-1.1754944e-38)]
  if big:
    pts += [np.float32((2 ** 24 - 1) * step), np.float32(-(2 ** 24 - 1) * step)]
  span = max(abs(lo), abs(hi), 1) * step
  pts += list(rng.uniform(-1.5 * span, 1.5 * span, size=n_random).astype(np.float32))
  pts += list((rng.choice([-1, 1], size=n_random) *
               np.exp2(rng.uniform(-12, 4, size=n_random)) * step).astype(np.float32))
  pts += [np.float32(e) for e in extra]
  arr = np.array(pts, dtype=np.float32)
  arr = arr[np.isfinite(arr)]
  return arr


def fr(a):
  return [F(float(v)) for v in np.asarray(a, dtype=np.float64).ravel()]


class Rec:
  """one configuration: inputs, implementation outputs, model outputs (all exact rationals)"""

  def __init__(self, kind, label, cfg):
    self.kind, self.label, self.cfg = kind, label, cfg
    self.xs = self.ps = self.ys = self.model = None
    self.step = self.lo = self.hi = self.gain = None
    self.impl_min = self.impl_max = self.impl_range = None
    self.model_min = self.model_max = self.model_range = None
    self.q = None
    self.err = None


def configs(tier, rng):
  """(kind, label, cfg dict, constructor kwargs) over the supported lattice"""
  out = []
  bmax = 8 if tier == "quick" else 12
  alphas = [None, 1.0, 0.5, 2.0, 0.25]
  for b in range(1, bmax + 1):
    for i in range(-2, b + 2):
      for kn, sym in itertools.product((0, 1), (0, 1)):
        for a in alphas:
          if b - kn < 0:
            continue
          out.append(("qbits", dict(bits=b, integer=i, symmetric=sym, keep_negative=kn, alpha=a)))
          out.append(("qlinear", dict(bits=b, integer=i, symmetric=sym, keep_negative=kn, alpha=a)))
  for b in range(1, bmax + 1):
    for i in range(-2, b + 2):
      for sl in (None, 0, 1, 2, 3, 5):
        if sl is not None and b < 2:
          continue  # a leaky ReLU needs the sign bit plus at least one magnitude bit
        out.append(("qrelu", dict(bits=b, integer=i, slope_log=sl)))
  for b in range(1, bmax + 1):
    for sym in (0, 1):
      for real in (0, 1):
        out.append(("qtanh", dict(bits=b, symmetric=sym, real=real)))
        out.append(("qsigmoid", dict(bits=b, symmetric=sym, real=real)))
  for b in (16, 24) if tier != "quick" else ():
    out.append(("qbits", dict(bits=b, integer=3, symmetric=0, keep_negative=1, alpha=None)))
    out.append(("qlinear", dict(bits=b, integer=3, symmetric=1, keep_negative=1, alpha=None)))
    out.append(("qrelu", dict(bits=b, integer=3, slope_log=None)))
  n = 320 if tier == "quick" else 2500
  if len(out) > n:
    # keep every kind represented: stratified sample
    by = {}
    for c in out:
      by.setdefault(c[0], []).append(c)
    sel = []
    share = {"qbits": 0.32, "qlinear": 0.3, "qrelu": 0.26, "qtanh": 0.06, "qsigmoid": 0.06}
    for k, lst in by.items():
      m = min(len(lst), max(8, int(n * share[k])))
      sel += [lst[j] for j in sorted(rng.choice(len(lst), size=m, replace=False).tolist())]
    out = sel
  return out


def build(kind, cfg):
  from qkeras import quantizers as Q
  if kind == "qbits":
    return Q.quantized_bits(cfg["bits"], cfg["integer"], cfg["symmetric"], keep_negative=cfg["keep_negative"],
                            alpha=cfg["alpha"])
  if kind == "qlinear":
    return Q.quantized_linear(cfg["bits"], cfg["integer"], cfg["symmetric"], keep_negative=cfg["keep_negative"],
                              alpha=cfg["alpha"])
  if kind == "qrelu":
    sl = cfg["slope_log"]
    return Q.quantized_relu(cfg["bits"], cfg["integer"], negative_slope=0.0 if sl is None else 2.0 ** -sl)
  if kind == "qtanh":
    return Q.quantized_tanh(cfg["bits"], symmetric=cfg["symmetric"], use_real_tanh=cfg["real"])
  if kind == "qsigmoid":
    return Q.quantized_sigmoid(cfg["bits"], symmetric=cfg["symmetric"], use_real_sigmoid=cfg["real"])
  raise ValueError(kind)


def lattice(kind, cfg):
  """(step, lo, hi, gain) of the declared format, exact; None for the 1-bit sign formats"""
  if kind in ("qbits", "qlinear"):
    kn = int(cfg["keep_negative"])
    ub = cfg["bits"] - kn
    gain = F(1) if cfg["alpha"] is None else F(cfg["alpha"])
    if ub <= 0:
      return None
    if kind == "qlinear" and cfg["bits"] == 1 and kn:
      return None
    step = F(2) ** (cfg["integer"] - ub)
    lo = (-(2 ** ub) + int(cfg["symmetric"])) if kn else 0
    if kind == "qlinear":
      # the updated quantizer divides by alpha * 2^(integer - ub) first: alpha is part of the step
      return step * gain, lo, 2 ** ub - 1, F(1)
    return step, lo, 2 ** ub - 1, gain
  if kind == "qrelu":
    nsb = cfg["bits"] - (0 if cfg["slope_log"] is None else 1)
    if nsb < 0:
      return None
    step = F(2) ** (cfg["integer"] - nsb)
    m = 2 ** nsb
    if cfg["slope_log"] is None:
      lo = 0
    else:
      sm = F(m, 2 ** cfg["slope_log"])        # slope * m codes on the negative side
      lo = -int(sm) if sm >= 1 else -1
    return step, lo, m - 1, F(1)
  if kind == "qtanh":
    m = 2 ** (cfg["bits"] - 1)
    return F(1, m), -m + int(cfg["symmetric"]), m - 1, F(1)
  if kind == "qsigmoid":
    m = 2 ** cfg["bits"]
    return F(1, m), int(cfg["symmetric"]), m - 1, F(1)


def surrogate_exact(kind, cfg, x):
  """exact rational surrogate (None for the real tanh / sigmoid, which are oracle inputs)"""
  if kind in ("qbits", "qlinear"):
    return x
  if kind == "qrelu":
    if cfg["slope_log"] is None:
      return max(x, F(0))
    return x if x >= 0 else x / (2 ** cfg["slope_log"])
  if cfg.get("real"):
    return None
  hs = min(max(x / 2 + F(1, 2), F(0)), F(1))
  return 2 * hs - 1 if kind == "qtanh" else hs


def collect(run: core.Run, tier: str, prop: str):
  """run implementation and model on every configuration; returns list of Rec"""
  core.assert_repo_import()
  import tensorflow as tf
  from qkeras import quantizers as Q
  rng = np.random.default_rng(run.seed)
  cfgs = configs(tier, rng)
  recs, lines = [], []
  for kind, cfg in cfgs:
    label = "%s(%s)" % (kind, ",".join("%s=%s" % kv for kv in cfg.items()))
    r = Rec(kind, label, cfg)
    lat = lattice(kind, cfg)
    try:
      q = build(kind, cfg)
    except Exception as e:  # pylint: disable=broad-except
      r.err = "ctor:" + type(e).__name__
      run.count("ctor_error")
      continue
    r.q = q
    if lat is None:
      # 1-bit sign formats: outputs +-gain (quantized_bits) resp. +-qs/2 (quantized_linear)
      g = F(1) if cfg.get("alpha") is None else F(cfg["alpha"])
      step, lo, hi = (g if kind == "qbits" else g * F(2) ** cfg["integer"] / 2), -1, 1
    else:
      step, lo, hi, _ = lat
    if kind in ("qtanh", "qsigmoid"):
      # inputs whose hard surrogate hits every code / breakpoint: x = 2*p-1 (tanh: p itself)
      base = points(rng, step, lo, hi)
      xs = base if kind == "qtanh" else (2.0 * base - 1.0).astype(np.float32)
      xs = np.concatenate([xs, np.array([-8, -4, -2.5, 2.5, 4, 8, -1, 1], dtype=np.float32)])
    else:
      xs = points(rng, step * (1 if lat is None else lat[3]), lo, hi)
      if kind == "qrelu" and cfg["slope_log"] is not None:
        # negative side: breakpoints of round(p*slope)
        xs = np.concatenate([xs, -np.abs(points(rng, step * 2 ** cfg["slope_log"], 0, max(1, -lo), n_random=6, big=False))])
    xs = np.unique(xs.view(np.int32)).view(np.float32)  # distinct bit patterns (keeps -0.0)
    xt = tf.constant(xs)
    try:
      ys = np.asarray(q(xt), dtype=np.float32)
    except Exception as e:  # pylint: disable=broad-except
      r.err = "call:" + type(e).__name__
      run.count("call_error")
      continue
    # TF's CPU kernels run with denormals-are-zero: a subnormal input IS zero to the real code
    xs_eff = np.where(np.abs(xs) < np.float32(1.17549435e-38), np.float32(0.0) * np.sign(xs), xs).astype(np.float32)
    r.xs, r.ys = fr(xs_eff), fr(ys)
    r.x32 = xs
    if kind == "qtanh":
      p = np.asarray(tf.tanh(xt) if cfg["real"] else 2.0 * Q._sigmoid(xt) - 1.0, dtype=np.float32)
      r.ps = fr(p)
    elif kind == "qsigmoid":
      p = np.asarray(tf.sigmoid(xt) if cfg["real"] else Q._sigmoid(xt), dtype=np.float32)
      r.ps = fr(p)
    try:
      r.impl_min, r.impl_max = F(float(q.min())), F(float(q.max()))
    except Exception as e:  # pylint: disable=broad-except
      r.impl_min = r.impl_max = None
    if hasattr(q, "range") and kind in ("qbits", "qrelu", "qlinear") and cfg["bits"] <= 10:
      try:
        r.impl_range = fr(np.asarray(q.range(), dtype=np.float32))
      except AssertionError:
        r.impl_range = "assert"
      except Exception as e:  # pylint: disable=broad-except
        r.impl_range = "err:" + type(e).__name__
    line = {"op": kind, "cfg": {k: (core.rj(v) if k == "alpha" and v is not None else v) for k, v in cfg.items()}}
    if kind in ("qtanh", "qsigmoid"):
      line["ps"] = [[p.numerator, p.denominator] for p in r.ps]
    else:
      line["xs"] = [[x.numerator, x.denominator] for x in r.xs]
    lines.append(line)
    recs.append(r)
  outs = core.run_driver(prop, lines, driver="C01")
  for r, o in zip(recs, outs):
    r.model = [core.unrj(p) for p in o["ys"]]
    r.model_min, r.model_max = core.unrj(o["min"]), core.unrj(o["max"])
    r.model_range = None if o.get("range") is None else [core.unrj(p) for p in o["range"]]
  return recs


def compare(run: core.Run, recs, with_reporters=True):
  """correspondence: implementation vs model, bit for bit"""
  for r in recs:
    run.count("kind_" + r.kind)
    band = set()
    if r.kind == "qlinear" and r.cfg["bits"] == 1 and r.cfg["keep_negative"]:
      # float32: (x/qs - 1/2) rounds to exactly -1/2 for -2^-25 < x/qs < 0 and tf.round(-0.5) = -0:
      # tiny negative inputs get the + code.  Band device (DESIGN §3.2): either sign is admissible there.
      qs = (F(1) if r.cfg["alpha"] is None else F(r.cfg["alpha"])) * F(2) ** r.cfg["integer"]
      band = {i for i, x in enumerate(r.xs) if -qs / 2 ** 24 <= x < 0}
      run.count("band_points", len(band))
    bad = [(i, str(r.xs[i]), str(r.ys[i]), str(r.model[i])) for i in range(len(r.xs))
           if r.ys[i] != r.model[i] and i not in band]
    run.compared += len(r.xs)
    r.mirrored = not bad
    if bad:
      run.disagree("value:" + r.kind, {"config": r.label, "n_points": len(r.xs), "n_bad": len(bad),
                                        "first": bad[:3]}, "see first", "see first")
    if with_reporters:
      if r.impl_min is not None and (r.impl_min != r.model_min or r.impl_max != r.model_max):
        if r.kind in ("qbits", "qrelu", "qlinear"):
          run.disagree("minmax:" + r.kind, {"config": r.label}, [str(r.impl_min), str(r.impl_max)],
                       [str(r.model_min), str(r.model_max)])
      if isinstance(r.impl_range, list) and r.model_range is not None and r.impl_range != r.model_range:
        run.disagree("range:" + r.kind, {"config": r.label}, [str(v) for v in r.impl_range[:6]],
                     [str(v) for v in r.model_range[:6]])
      if r.impl_range == "assert" and r.model_range is not None and r.kind != "qlinear":
        run.disagree("range-assert:" + r.kind, {"config": r.label}, "AssertionError", "list")
      if isinstance(r.impl_range, list) and r.model_range is None:
        run.disagree("range-assert:" + r.kind, {"config": r.label}, "list", "assert")
