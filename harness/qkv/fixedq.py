"""shared generation / execution for C01 and C02 (fixed-point quantizers at value level)

For every configuration: the model-directed input stream (every code's lattice point and rounding
breakpoint +-1,2 ulp, saturation edges, zeros / subnormals, +-(2^24-1) steps, random tensors), the
real quantizer run eagerly on float32, the Lean model (`drivers/C01.lean`) on the same exact
rationals, and exact-rational records for the clause oracles.

Families (the first is the original lattice; the others were added in the strengthening round):
  base        quantized_bits / quantized_linear / quantized_relu / quantized_tanh / quantized_sigmoid,
              scalar or no alpha, default options
  per-channel quantized_linear / quantized_bits with a constant alpha TENSOR (one entry per channel,
              layouts [1,C] / [C] / [C,1] / nested list / tuple / tf.constant), all three reporters
  relu-opts   quantized_relu x is_quantized_clip x relu_upper_bound (None, 0.0, on-grid below / at /
              above the largest code, off-grid below / above) x leaky slope
  modes       every quantizer that reads the module-level `_sigmoid` (quantized_sigmoid,
              quantized_tanh, quantized_relu(use_sigmoid=1)) x mode at construction x mode at call
  reassign    construct with a decoy configuration, assign the attributes afterwards, then call
  history     ONE object of every class through a sequence of calls / reporters / attribute
              assignments / _set_trainable_parameter() / being handed to layers (`fixedq_hist`)
  stoch-phase every class with `use_stochastic_rounding` set (flag as bool / int / np.bool_ / np.int32,
              given to the constructor or assigned afterwards) x the process-level learning phase: the
              judged call runs in the INFERENCE phase reached in every way (never touched, set to 0,
              scope(0), after a training-phase call, after leaving scope(1), object constructed in the
              training phase, through QActivation with / without training=False, inside a tf.function),
              plus the flag OFF in the training phase; each call is made twice (same result required)
  stoch-train the training-phase calls of the above (random draws: no model value; judged by the
              "codes only" clauses of C01, which hold for every draw)"""
from fractions import Fraction as F
import itertools

import numpy as np

from . import core


MODES = ("hard", "smooth", "real")


def ulps(x, ks=(-2, -1, 1, 2)):
  out = []
  for k in ks:
    v = np.float32(x)
    for _ in range(abs(k)):
      v = np.nextafter(v, np.float32(np.inf if k > 0 else -np.inf), dtype=np.float32)
    out.append(v)
  return out


def points(rng, step, lo, hi, n_random=24, extra=(), big=True):
  """float32 inputs aimed at the case splits of round/clip for codes lo..hi of size `step`"""
  step = float(step)
  ks = list(range(lo - 2, hi + 3))
  if len(ks) > 40:
    inner = rng.integers(lo, hi, size=24).tolist()
    ks = sorted(set(ks[:6] + ks[-6:] + inner + [-1, 0, 1]))
  pts = []
  for k in ks:
    for base in (k * step, (k + 0.5) * step):
      b = np.float32(base)
      pts.append(b)
      pts += ulps(b)
  pts += [np.float32(0.0), np.float32(-0.0), np.float32(1e-45), np.float32(-1e-45),
          np.float32(1.1754942e-38), np.float32(-1.1754944e-38)]
  if big:
    pts += [np.float32((2 ** 24 - 1) * step), np.float32(-(2 ** 24 - 1) * step)]
  span = max(abs(lo), abs(hi), 1) * step
  pts += list(rng.uniform(-1.5 * span, 1.5 * span, size=n_random).astype(np.float32))
  pts += list((rng.choice([-1, 1], size=n_random) *
               np.exp2(rng.uniform(-12, 4, size=n_random)) * step).astype(np.float32))
  for e in extra:
    b = np.float32(e)
    pts.append(b)
    pts += ulps(b)
  arr = np.array(pts, dtype=np.float32)
  arr = arr[np.isfinite(arr)]
  return arr


def fr(a):
  return [F(float(v)) for v in np.asarray(a, dtype=np.float64).ravel()]


def flush(xs):
  """TF's CPU kernels run with denormals-are-zero: a subnormal input IS zero to the real code"""
  return np.where(np.abs(xs) < np.float32(1.17549435e-38), np.float32(0.0) * np.sign(xs), xs).astype(np.float32)


def distinct(xs):
  return np.unique(np.asarray(xs, dtype=np.float32).view(np.int32)).view(np.float32)  # keeps -0.0


class Rec:
  """one configuration (one channel of a per-channel one): inputs, implementation outputs, model
  outputs (all exact rationals)"""

  def __init__(self, kind, label, cfg):
    self.kind, self.label, self.cfg = kind, label, cfg
    self.xs = self.ps = self.ys = self.model = None
    self.step = self.lo = self.hi = self.gain = None
    self.impl_min = self.impl_max = self.impl_range = None
    self.model_min = self.model_max = self.model_range = None
    self.q = None
    self.call = None            # float32 vector -> float32 vector, through the real quantizer
    self.err = None
    self.yx = None              # model outputs computed from the inputs under the call-time mode
    self.range_flat = False     # per-channel: range() returned ONE list for all channels
    self.range_unreachable = None
    self.family = "base"
    self.ys_again = None        # stoch-phase: outputs of a second, identical call
    self.train = False          # stoch-train: a training-phase call (no model value)

  # flags that identify a site for known-finding matching
  def flags(self):
    c = self.cfg
    out = {"kind": self.kind}
    if self.family != "base":
      out["family"] = self.family
    if self.kind in ("qrelu", "qrelusig"):
      ub = c.get("upper")
      if ub is not None:
        step, lo, hi, _ = lattice(self.kind, c)
        out["upper_zero"] = bool(ub == 0)
        out["upper_offgrid"] = bool((F(ub) / step).denominator != 1)
        # 0.0 is a bound like any other since the fix of C02-relu-upper-zero (it used to be falsy)
        out["upper_below_top"] = bool(0 <= F(ub) < hi * step)
        out["qclip"] = bool(c.get("qclip", 1))
    if c.get("route", "direct") != "direct":
      out["route"] = c["route"]
    if "proute" in c:
      out["stoch"], out["phase"], out["proute"] = bool(c.get("stoch")), int(c.get("phase", 0)), c["proute"]
    return out


# --------------------------------------------------------------------------- configurations

def configs(tier, rng):
  """(kind, label, cfg dict, constructor kwargs) over the supported lattice"""
  out = []
  bmax = 8 if tier == "quick" else 12
  alphas = [None, 1.0, 0.5, 2.0, 0.25]
  for b in range(1, bmax + 1):
    for i in range(-2, b + 2):
      for kn, sym in itertools.product((0, 1), (0, 1)):
        for a in alphas:
          if b - kn < 0:
            continue
          out.append(("qbits", dict(bits=b, integer=i, symmetric=sym, keep_negative=kn, alpha=a)))
          out.append(("qlinear", dict(bits=b, integer=i, symmetric=sym, keep_negative=kn, alpha=a)))
  for b in range(1, bmax + 1):
    for i in range(-2, b + 2):
      for sl in (None, 0, 1, 2, 3, 5):
        if sl is not None and b < 2:
          continue  # a leaky ReLU needs the sign bit plus at least one magnitude bit
        out.append(("qrelu", dict(bits=b, integer=i, slope_log=sl)))
  for b in range(1, bmax + 1):
    for sym in (0, 1):
      for real in (0, 1):
        out.append(("qtanh", dict(bits=b, symmetric=sym, real=real)))
        out.append(("qsigmoid", dict(bits=b, symmetric=sym, real=real)))
  for b in (16, 24) if tier != "quick" else ():
    out.append(("qbits", dict(bits=b, integer=3, symmetric=0, keep_negative=1, alpha=None)))
    out.append(("qlinear", dict(bits=b, integer=3, symmetric=1, keep_negative=1, alpha=None)))
    out.append(("qrelu", dict(bits=b, integer=3, slope_log=None)))
  n = 320 if tier == "quick" else 2500
  if len(out) > n:
    # keep every kind represented: stratified sample
    by = {}
    for c in out:
      by.setdefault(c[0], []).append(c)
    sel = []
    share = {"qbits": 0.32, "qlinear": 0.3, "qrelu": 0.26, "qtanh": 0.06, "qsigmoid": 0.06}
    for k, lst in by.items():
      m = min(len(lst), max(8, int(n * share[k])))
      sel += [lst[j] for j in sorted(rng.choice(len(lst), size=m, replace=False).tolist())]
    out = sel
  return out


def _pick(rng, lst, n):
  if len(lst) <= n:
    return list(lst)
  return [lst[j] for j in sorted(rng.choice(len(lst), size=n, replace=False).tolist())]


PC_ALPHAS = [(0.5, 1.0, 2.0), (4.0, 0.25, 1.0), (1.0, 1.0, 1.0), (2.0, 0.5), (1.0, 2.0, 4.0, 0.5), (2.0,),
             (0.25, 0.125, 0.5), (1.0, 8.0, 1.0, 0.5, 2.0, 4.0, 0.25)]


def configs_extra(tier, rng):
  """the families of the strengthening round; `rng` is a stream of its own, so the base sample of a
  given seed is the one it always was"""
  quick = tier == "quick"
  out = []
  # ---- per-channel constant scales: every layout a tensor alpha can have
  pc = []
  for b in range(1, 6):
    for i in (-1, 0, 1, 2):
      for kn, sym in itertools.product((0, 1), (0, 1)):
        for al in PC_ALPHAS:
          for layout in ("row", "vec", "col", "list", "tf", "r4"):
            pc.append(("qlinear_pc", dict(bits=b, integer=i, symmetric=sym, keep_negative=kn,
                                          alphas=list(al), layout=layout)))
  # the cells where range() broadcasts [.., C] against n codes with C == n (bits=2: n = 3 or 4)
  must = [c for c in pc if c[1]["bits"] == 2 and c[1]["keep_negative"] and c[1]["layout"] in ("row", "vec")
          and len(c[1]["alphas"]) == (3 if c[1]["symmetric"] else 4) and c[1]["integer"] == 0]
  out += _pick(rng, must, 4) + _pick(rng, pc, 56 if quick else 400)
  pcb = []
  for b in range(1, 6):
    for i in (-1, 0, 1, 2):
      for kn, sym in itertools.product((0, 1), (0, 1)):
        if b - kn < 0:
          continue
        for al in PC_ALPHAS:
          for layout in ("list", "tuple"):
            pcb.append(("qbits_pc", dict(bits=b, integer=i, symmetric=sym, keep_negative=kn,
                                         alphas=list(al), layout=layout)))
  out += _pick(rng, pcb, 24 if quick else 160)
  # ---- quantized_relu x is_quantized_clip x relu_upper_bound x leaky slope
  ro = []
  for b in range(2, 7):
    for i in (-1, 0, 1, 2, 3):
      for sl in (None, 1, 2):
        nsb = b - (0 if sl is None else 1)
        if sl is not None and sl > nsb:
          continue
        step = 2.0 ** (i - nsb)
        top = (2 ** nsb - 1) * step
        bounds = [("none", None), ("zero", 0.0), ("grid-below", 2 ** (nsb - 1) * step), ("grid-at", top),
                  ("grid-above", top + step), ("pow2-above", 2.0 ** (i + 1)), ("six", 6.0 * 2.0 ** i),
                  ("off-below", float(np.float32(top * 0.7 + step / 3))),
                  ("off-above", float(np.float32(top + 0.3 * step)))]
        for qc in (0, 1):
          for bname, ub in bounds:
            ro.append(("qrelu", dict(bits=b, integer=i, slope_log=sl, upper=ub, qclip=qc, bound=bname)))
  # every (bound class, is_quantized_clip, leaky?) cell at least once, then a random fill
  cells = {}
  for c in ro:
    cells.setdefault((c[1]["bound"], c[1]["qclip"], c[1]["slope_log"] is None), []).append(c)
  for key in sorted(cells, key=str):
    out += _pick(rng, cells[key], 2)
  out += _pick(rng, ro, 40 if quick else 400)
  # ---- the module-level `_sigmoid` switch: mode at construction x mode at call
  md = []
  for b in range(1, 9):
    for sym in (0, 1):
      for cm in MODES:
        for m in MODES:
          md.append(("qsigmoid", dict(bits=b, symmetric=sym, real=0, ctor_mode=cm, mode=m)))
          md.append(("qtanh", dict(bits=b, symmetric=sym, real=0, ctor_mode=cm, mode=m)))
  cells = {}
  for c in md:
    cells.setdefault((c[0], c[1]["ctor_mode"], c[1]["mode"]), []).append(c)
  for key in sorted(cells):
    out += _pick(rng, cells[key], 3 if quick else 12)
  # use_real_* must NOT follow the switch
  for kind in ("qsigmoid", "qtanh"):
    for cm, m in (("hard", "smooth"), ("smooth", "real"), ("real", "hard")):
      out.append((kind, dict(bits=int(rng.integers(2, 7)), symmetric=int(rng.integers(0, 2)), real=1,
                             ctor_mode=cm, mode=m)))
  rs = []
  for b in range(2, 7):
    for i in (-1, 0, 1, 2):
      for sl in (None, 1, 2):
        nsb = b - (0 if sl is None else 1)
        if sl is not None and sl > nsb:
          continue
        for cm in MODES:
          for m in MODES:
            rs.append(("qrelusig", dict(bits=b, integer=i, slope_log=sl, ctor_mode=cm, mode=m)))
  cells = {}
  for c in rs:
    cells.setdefault((c[1]["ctor_mode"], c[1]["mode"], c[1]["slope_log"] is None), []).append(c)
  for key in sorted(cells, key=str):
    out += _pick(rng, cells[key], 2 if quick else 8)
  # use_sigmoid=1 with the upper-bound pass
  for bname in ("grid-below", "grid-above", "zero"):
    b, i = int(rng.integers(3, 6)), int(rng.integers(0, 3))
    step = 2.0 ** (i - b)
    ub = {"grid-below": 2 ** (b - 1) * step, "grid-above": 2 ** b * step, "zero": 0.0}[bname]
    out.append(("qrelusig", dict(bits=b, integer=i, slope_log=None, ctor_mode="hard", mode="hard",
                                 upper=ub, qclip=0, bound=bname)))
  # ---- construct with a decoy configuration, assign the attributes afterwards, call
  ra = []
  for b in range(1, 7):
    for i in (-1, 0, 2):
      for kn, sym in itertools.product((0, 1), (0, 1)):
        if b - kn < 0:
          continue
        ra.append(("qbits", dict(bits=b, integer=i, symmetric=sym, keep_negative=kn,
                                 alpha=[None, 0.5, 2.0][(b + i) % 3], route="reassign")))
        ra.append(("qlinear", dict(bits=b, integer=i, symmetric=sym, keep_negative=kn,
                                   alpha=[None, 0.5, 2.0][(b + i) % 3], route="reassign")))
      for sl in (None, 1):
        if sl is not None and b < 2:
          continue
        ra.append(("qrelu", dict(bits=b, integer=i, slope_log=sl, route="reassign")))
    for sym in (0, 1):
      for real in (0, 1):
        ra.append(("qtanh", dict(bits=b, symmetric=sym, real=real, route="reassign")))
        ra.append(("qsigmoid", dict(bits=b, symmetric=sym, real=real, route="reassign")))
  cells = {}
  for c in ra:
    cells.setdefault(c[0], []).append(c)
  for key in sorted(cells):
    out += _pick(rng, cells[key], 6 if quick else 40)
  # quantized_linear: `alpha` assigned after construction (declared "modifyable"; the scale is stored once)
  for ca, a in ((None, 2.0), (2.0, None), (0.5, 2.0), (1.0, None), (None, 0.25)):
    out.append(("qlinear", dict(bits=int(rng.integers(2, 7)), integer=int(rng.integers(-1, 3)),
                                symmetric=int(rng.integers(0, 2)), keep_negative=1, alpha=a, ctor_alpha=ca,
                                has_ctor_alpha=1, route="reassign-alpha")))
  return out


# "train-then-infer" first: the very first flagged call of the process is a TRAINING-phase call (a phase memoised
# at first use, per object or per module, then shows at every later inference call)
PHASE_ROUTES = ("train-then-infer", "asis", "set0", "scope0", "scope1-exit", "ctor-train", "assign", "layer",
                "layer-training-false", "tf-function", "noflag-train")
FLAG_FORMS = ("bool", "int", "npbool", "i32")


def configs_stoch(tier, rng):
  """every fixed-point class with `use_stochastic_rounding` x the ways the inference phase is reached
  (strengthening round 3, seed C02-7); a stream of its own"""
  quick = tier == "quick"
  pool = {}

  def add(cell, kind, cfg):
    pool.setdefault(cell, []).append((kind, cfg))
  for b in range(1, 7):
    for i in (-1, 0, 1, 2, 3):
      for kn, sym in itertools.product((0, 1), (0, 1)):
        if b - kn < 0:
          continue
        for a in (None, 1.0, 0.5, 2.0):
          add("qbits", "qbits", dict(bits=b, integer=i, symmetric=sym, keep_negative=kn, alpha=a))
          add("qlinear", "qlinear", dict(bits=b, integer=i, symmetric=sym, keep_negative=kn, alpha=a))
      for sl in (None, 1, 2):
        nsb = b - (0 if sl is None else 1)
        if sl is not None and (b < 2 or sl > nsb):
          continue
        if i < 0:
          continue      # quantized_relu computes K.pow(2, integer) on python ints: InvalidArgumentError for integer < 0
        add("qrelu-plain" if sl is None else "qrelu-leaky", "qrelu", dict(bits=b, integer=i, slope_log=sl))
        step = 2.0 ** (i - nsb)
        for bname, ub in (("grid-below", 2 ** (nsb - 1) * step), ("grid-above", 2 ** nsb * step)):
          add("qrelu-upper", "qrelu", dict(bits=b, integer=i, slope_log=sl, upper=ub, qclip=0, bound=bname))
        add("qrelusig", "qrelusig", dict(bits=b, integer=i, slope_log=sl))
    for sym in (0, 1):
      for real in (0, 1):
        add("qtanh", "qtanh", dict(bits=b, symmetric=sym, real=real))
        add("qsigmoid", "qsigmoid", dict(bits=b, symmetric=sym, real=real))
  # the primer: the first flagged `_round_through` call of the process is a training-phase one, whatever the
  # sample (a 1-bit sign configuration would never reach `_round_through`)
  out = [("qbits", dict(bits=4, integer=0, symmetric=1, keep_negative=1, alpha=None, stoch=1, phase=0,
                        proute="train-then-infer", flag_form="bool", u=0.9, u2=0.25))]
  n_tf = 0
  cells = sorted(pool)
  fill = [(cells[int(rng.integers(0, len(cells)))], PHASE_ROUTES[int(rng.integers(0, len(PHASE_ROUTES)))])
          for _ in range(24 if quick else 300)]
  for cell, route in [(c, r) for c in cells for r in PHASE_ROUTES] + fill:
    if route == "tf-function":
      n_tf += 1
      if n_tf > (8 if quick else 24):
        route = "set0"
    kind, cfg = pool[cell][int(rng.integers(0, len(pool[cell])))]
    cfg = dict(cfg)
    cfg["stoch"] = 0 if route == "noflag-train" else 1
    cfg["phase"] = 1 if route == "noflag-train" else 0
    cfg["proute"] = route
    cfg["flag_form"] = FLAG_FORMS[int(rng.integers(0, len(FLAG_FORMS)))]
    # the draws the model is given: irrelevant in a deterministic round mode (Props.C02.C02_*_inference)
    cfg["u"], cfg["u2"] = float(rng.integers(0, 1024)) / 1024.0, float(rng.integers(0, 1024)) / 1024.0
    out.append((kind, cfg))
  return out


# --------------------------------------------------------------------------- the real quantizers

def _alpha_arg(cfg):
  import tensorflow as tf
  al, layout = cfg["alphas"], cfg["layout"]
  if layout == "row":
    return np.array([al], dtype=np.float32)
  if layout == "vec":
    return np.array(al, dtype=np.float32)
  if layout == "col":
    return np.array([[a] for a in al], dtype=np.float32)
  if layout == "list":
    return [list(al)]
  if layout == "tuple":
    return tuple(al)
  if layout == "tf":
    return tf.constant([al], dtype=tf.float32)
  if layout == "r4":
    return np.array(al, dtype=np.float32).reshape(1, 1, 1, -1)     # a conv kernel's per-channel scale
  raise ValueError(layout)


def _flag_value(cfg):
  v = bool(cfg.get("stoch"))
  return {"bool": bool, "int": int, "npbool": np.bool_, "i32": np.int32}[cfg.get("flag_form", "bool")](v)


def _with_flag(cls, cfg):
  """the constructor, with `use_stochastic_rounding` where the configuration asks for it (route "assign":
  constructed WITHOUT the flag, assigned afterwards in `build`)"""
  if "stoch" not in cfg or (cfg.get("proute") == "assign" and cls.__name__ != "quantized_linear"):
    return cls
  return lambda *a, **k: cls(*a, use_stochastic_rounding=_flag_value(cfg), **k)


def _build_direct(kind, cfg):
  from qkeras import quantizers as Q0

  class _Q:   # the constructors, flagged where asked for
    quantized_bits = staticmethod(_with_flag(Q0.quantized_bits, cfg))
    quantized_linear = staticmethod(_with_flag(Q0.quantized_linear, cfg))
    quantized_relu = staticmethod(_with_flag(Q0.quantized_relu, cfg))
    quantized_tanh = staticmethod(_with_flag(Q0.quantized_tanh, cfg))
    quantized_sigmoid = staticmethod(_with_flag(Q0.quantized_sigmoid, cfg))
  Q = _Q
  if kind == "qbits":
    return Q.quantized_bits(cfg["bits"], cfg["integer"], cfg["symmetric"], keep_negative=cfg["keep_negative"],
                            alpha=cfg["alpha"])
  if kind == "qlinear":
    return Q.quantized_linear(cfg["bits"], cfg["integer"], cfg["symmetric"], keep_negative=cfg["keep_negative"],
                              alpha=cfg["alpha"])
  if kind == "qbits_pc":
    return Q.quantized_bits(cfg["bits"], cfg["integer"], cfg["symmetric"], keep_negative=cfg["keep_negative"],
                            alpha=_alpha_arg(cfg))
  if kind == "qlinear_pc":
    return Q.quantized_linear(cfg["bits"], cfg["integer"], cfg["symmetric"], keep_negative=cfg["keep_negative"],
                              alpha=_alpha_arg(cfg))
  if kind in ("qrelu", "qrelusig"):
    sl = cfg["slope_log"]
    kw = {}
    if "upper" in cfg:
      kw["relu_upper_bound"] = cfg["upper"]
    if "qclip" in cfg:
      kw["is_quantized_clip"] = bool(cfg["qclip"])
    return Q.quantized_relu(cfg["bits"], cfg["integer"], use_sigmoid=int(kind == "qrelusig"),
                            negative_slope=0.0 if sl is None else 2.0 ** -sl, **kw)
  if kind == "qtanh":
    return Q.quantized_tanh(cfg["bits"], symmetric=cfg["symmetric"], use_real_tanh=cfg["real"])
  if kind == "qsigmoid":
    return Q.quantized_sigmoid(cfg["bits"], symmetric=cfg["symmetric"], use_real_sigmoid=cfg["real"])
  raise ValueError(kind)


def _build_reassign(kind, cfg):
  """a quantizer constructed with OTHER values; the attributes are assigned afterwards.  Anything the
  constructor pre-computes from its arguments goes stale here."""
  from qkeras import quantizers as Q
  if kind == "qbits":
    q = Q.quantized_bits(cfg["bits"] + 2, cfg["integer"] + 1, 1 - cfg["symmetric"],
                         keep_negative=not cfg["keep_negative"], alpha=None if cfg["alpha"] else 4.0)
    q.bits, q.integer, q.symmetric = cfg["bits"], cfg["integer"], cfg["symmetric"]
    q.keep_negative, q.alpha = cfg["keep_negative"], cfg["alpha"]
    return q
  if kind == "qlinear":
    # bits / integer / keep_negative are read-only properties; `symmetric` is documented as modifiable
    # (`alpha` too, but quantization_scale is derived from it once: see notes, not exercised here)
    q = Q.quantized_linear(cfg["bits"], cfg["integer"], 1 - cfg["symmetric"], keep_negative=cfg["keep_negative"],
                           alpha=cfg["alpha"])
    q.symmetric = cfg["symmetric"]
    return q
  if kind == "qrelu":
    sl = cfg["slope_log"]
    q = Q.quantized_relu(cfg["bits"] + 1, cfg["integer"] + 2, negative_slope=0.5 if sl is None else 0.0,
                         relu_upper_bound=0.75, is_quantized_clip=False)
    q.bits, q.integer = cfg["bits"], cfg["integer"]
    q.negative_slope = 0.0 if sl is None else 2.0 ** -sl
    q.relu_upper_bound, q.is_quantized_clip = None, True
    return q
  if kind == "qtanh":
    q = Q.quantized_tanh(cfg["bits"] + 1, symmetric=1 - cfg["symmetric"], use_real_tanh=1 - cfg["real"])
    q.bits, q.symmetric, q.use_real_tanh = cfg["bits"], cfg["symmetric"], cfg["real"]
    return q
  if kind == "qsigmoid":
    q = Q.quantized_sigmoid(cfg["bits"] + 1, symmetric=1 - cfg["symmetric"], use_real_sigmoid=1 - cfg["real"])
    q.bits, q.symmetric, q.use_real_sigmoid = cfg["bits"], cfg["symmetric"], cfg["real"]
    return q
  raise ValueError(kind)


def build(kind, cfg):
  """construct the real quantizer; for the mode family under the mode `ctor_mode` (restored after)"""
  from qkeras import quantizers as Q
  cm = cfg.get("ctor_mode")
  proute = cfg.get("proute")
  try:
    if cm is not None:
      Q.set_internal_sigmoid(cm)
    if proute == "ctor-train":
      _set_phase(1)
    if proute == "assign" and kind != "qlinear":      # quantized_linear: a read-only property
      q = _build_direct(kind, cfg)
      q.use_stochastic_rounding = _flag_value(cfg)
      return q
    if cfg.get("route") == "reassign":
      return _build_reassign(kind, cfg)
    if cfg.get("route") == "reassign-alpha":
      q = Q.quantized_linear(cfg["bits"], cfg["integer"], cfg["symmetric"], keep_negative=cfg["keep_negative"],
                             alpha=cfg["ctor_alpha"])
      q.alpha = cfg["alpha"]
      return q
    return _build_direct(kind, cfg)
  finally:
    if cm is not None:
      Q.set_internal_sigmoid("hard")
    if proute == "ctor-train":
      _set_phase(0)


def _backend():
  import tensorflow.keras.backend as K      # the module qkeras.quantizers reads the phase from
  return K


def have_phase():
  return hasattr(_backend(), "set_learning_phase") and hasattr(_backend(), "learning_phase")


def _set_phase(v):
  _backend().set_learning_phase(v)


def _phase_call(q, cfg, t, state):
  """the judged call of the stoch-phase family: reach the phase the configuration names by its route,
  call, and put the process back into the default (inference) phase"""
  import tensorflow as tf
  K = _backend()
  route = cfg["proute"]
  try:
    if route in ("asis", "ctor-train", "assign"):
      ph = K.learning_phase()
      if not (isinstance(ph, (int, bool, np.integer)) and int(ph) == 0):
        raise AssertionError("the harness left the learning phase at %r" % (ph,))
      return q(t)
    if route == "set0":
      _set_phase(0)
      return q(t)
    if route == "scope0":
      with K.learning_phase_scope(0):
        return q(t)
    if route == "train-then-infer":
      _set_phase(1)
      state["train_out"] = np.asarray(q(t), dtype=np.float32)
      _set_phase(0)
      return q(t)
    if route == "scope1-exit":
      with K.learning_phase_scope(1):
        state["train_out"] = np.asarray(q(t), dtype=np.float32)
      return q(t)
    if route in ("layer", "layer-training-false"):
      if "layer" not in state:
        import qkeras
        state["layer"] = qkeras.QActivation(q)
        if state["layer"].quantizer is not q:
          raise AssertionError("QActivation holds another object")
      return state["layer"](t) if route == "layer" else state["layer"](t, training=False)
    if route == "tf-function":
      if "fn" not in state:
        state["fn"] = tf.function(lambda v: q(v), input_signature=[tf.TensorSpec([None], tf.float32)])
      return state["fn"](t)
    if route == "noflag-train":
      _set_phase(1)
      return q(t)
    raise ValueError(route)
  finally:
    _set_phase(0)


def caller(q, cfg):
  """float32 array -> float32 array through the real quantizer, under the call-time mode"""
  import tensorflow as tf
  from qkeras import quantizers as Q
  mode = cfg.get("mode")
  state = {}

  def call(arr):
    try:
      if mode is not None:
        Q.set_internal_sigmoid(mode)
      t = tf.constant(np.asarray(arr, dtype=np.float32))
      if "proute" in cfg:
        return np.asarray(_phase_call(q, cfg, t, state), dtype=np.float32)
      return np.asarray(q(t), dtype=np.float32)
    finally:
      if mode is not None:
        Q.set_internal_sigmoid("hard")     # the default: later cases must not see this one's mode
  call.state = state
  return call


def surrogate32(mode, xt):
  """float32 value of the surrogate of `mode`, from the functions themselves (NOT through the
  module-level name `_sigmoid`, whose binding is what is under test)"""
  import tensorflow as tf
  from qkeras import quantizers as Q
  f = {"hard": Q.hard_sigmoid, "smooth": Q.smooth_sigmoid, "real": tf.sigmoid}[mode]
  return f(xt)


# --------------------------------------------------------------------------- exact references

def lattice(kind, cfg):
  """(step, lo, hi, gain) of the declared format, exact; None for the 1-bit sign formats"""
  if kind in ("qbits", "qlinear"):
    kn = int(cfg["keep_negative"])
    ub = cfg["bits"] - kn
    gain = F(1) if cfg["alpha"] is None else F(cfg["alpha"])
    if ub <= 0:
      return None
    if kind == "qlinear" and cfg["bits"] == 1 and kn:
      return None
    step = F(2) ** (cfg["integer"] - ub)
    lo = (-(2 ** ub) + int(cfg["symmetric"])) if kn else 0
    if kind == "qlinear":
      # the updated quantizer divides by alpha * 2^(integer - ub) first: alpha is part of the step
      return step * gain, lo, 2 ** ub - 1, F(1)
    return step, lo, 2 ** ub - 1, gain
  if kind == "qbitsauto":
    # quantized_bits under alpha="auto*" GIVEN the scale it reports: codes -(2^(bits-1)-1) .. 2^(bits-1)-1
    # (only the symmetric case exists; keep_negative is not consulted) of size scale * 2^integer
    half = 2 ** (cfg["bits"] - 1) - 1
    return F(cfg["scale"]) * F(2) ** cfg["integer"], -half, half, F(1)
  if kind in ("qrelu", "qrelusig"):
    nsb = cfg["bits"] - (0 if cfg["slope_log"] is None else 1)
    if nsb < 0:
      return None
    step = F(2) ** (cfg["integer"] - nsb)
    m = 2 ** nsb
    if cfg["slope_log"] is None:
      lo = 0
    else:
      sm = F(m, 2 ** cfg["slope_log"])        # slope * m codes on the negative side
      lo = -int(sm) if sm >= 1 else -1
    return step, lo, m - 1, F(1)
  if kind == "qtanh":
    m = 2 ** (cfg["bits"] - 1)
    return F(1, m), -m + int(cfg["symmetric"]), m - 1, F(1)
  if kind == "qsigmoid":
    m = 2 ** cfg["bits"]
    return F(1, m), int(cfg["symmetric"]), m - 1, F(1)


def sigmoid_exact(mode, x):
  """exact value of the piecewise-linear surrogates (None for the real sigmoid)"""
  if mode == "hard":
    return min(max(x / 2 + F(1, 2), F(0)), F(1))
  if mode == "smooth":
    return min(max(3 * x / 16 + F(1, 2), F(0)), F(1))
  return None


def surrogate_exact(kind, cfg, x):
  """exact rational underlying activation (None where it is an oracle input: real tanh / sigmoid)"""
  if kind in ("qbits", "qlinear", "qbitsauto"):
    return x
  if kind == "qrelu":
    step, lo, hi, _ = lattice(kind, cfg)
    sl = cfg["slope_log"]
    lrelu = x if x >= 0 else (F(0) if sl is None else x / (2 ** sl))
    ub = cfg.get("upper")
    if cfg.get("qclip", 1):
      # x_u = where(x <= m_i - m_f, relu(x), m_i - m_f)
      return lrelu if x <= hi * step else hi * step
    if ub is not None:
      return lrelu if x <= F(ub) else F(ub)
    return lrelu
  if kind == "qrelusig":
    s = sigmoid_exact(cfg.get("mode", "hard"), x / F(2) ** cfg["integer"])
    if s is None or cfg["slope_log"] is not None:
      return None
    a = F(2) ** cfg["integer"] * max(2 * s - 1, F(0))
    ub = cfg.get("upper")
    if not cfg.get("qclip", 1) and ub is not None:
      a = min(a, F(ub))
    return a
  if cfg.get("real"):
    return None
  s = sigmoid_exact(cfg.get("mode", "hard"), x)
  if s is None:
    return None
  return 2 * s - 1 if kind == "qtanh" else s


def surrogate_slack(kind, cfg):
  """float32 evaluation error of the piecewise-linear surrogates (Props.C02.C02_surrogate_error and
  its smooth counterpart): hard = one rounding, smooth = two; tanh = 2*sigmoid-1 doubles it"""
  if kind not in ("qtanh", "qsigmoid", "qrelusig"):
    return F(0)
  base = F(1, 2 ** 24) if cfg.get("mode", "hard") == "hard" else F(1, 2 ** 23)
  if kind == "qrelusig":
    return base * 2 * F(2) ** cfg["integer"]
  return base * (2 if kind == "qtanh" and cfg.get("mode", "hard") != "hard" else 1)


# --------------------------------------------------------------------------- running

def _label(kind, cfg):
  return "%s(%s)" % (kind, ",".join("%s=%s" % kv for kv in cfg.items()))


def _wire_cfg(cfg):
  out = {}
  for k, v in cfg.items():
    if k in ("alpha", "upper", "ctor_alpha", "u", "u2"):
      out[k] = None if v is None else core.rj(v)
    elif k in ("alphas", "layout", "bound", "route", "ctor_mode", "mode", "real", "proute", "flag_form"):
      continue
    else:
      out[k] = v
  return out


def _rats(fs):
  return [[p.numerator, p.denominator] for p in fs]


def _reporters(r, q, kind, cfg):
  try:
    r.impl_min, r.impl_max = F(float(q.min())), F(float(q.max()))
  except Exception:  # pylint: disable=broad-except
    r.impl_min = r.impl_max = None
  if hasattr(q, "range") and kind in ("qbits", "qrelu", "qlinear") and cfg["bits"] <= 10:
    try:
      r.impl_range = fr(np.asarray(q.range(), dtype=np.float32))
    except AssertionError:
      r.impl_range = "assert"
    except Exception as e:  # pylint: disable=broad-except
      r.impl_range = "err:" + type(e).__name__


def _collect_scalar(run, rng, kind, cfg, family, jobs, recs):
  import tensorflow as tf
  label = _label(kind, cfg)
  r = Rec(kind, label, cfg)
  r.family = family
  lat = lattice(kind, cfg)
  try:
    q = build(kind, cfg)
  except Exception as e:  # pylint: disable=broad-except
    r.err = "ctor:" + type(e).__name__
    run.count("ctor_error")
    return
  r.q = q
  r.call = caller(q, cfg)
  if lat is None:
    # 1-bit sign formats: outputs +-gain (quantized_bits) resp. +-qs/2 (quantized_linear)
    g = F(1) if cfg.get("alpha") is None else F(cfg["alpha"])
    step, lo, hi = (g if kind == "qbits" else g * F(2) ** cfg["integer"] / 2), -1, 1
  elif cfg.get("route") == "reassign-alpha":
    # the inputs aim at the format the object BEHAVES as (the stored scale); the oracle judges them
    # against the declared one
    step, lo, hi, _ = lattice(kind, dict(cfg, alpha=cfg["ctor_alpha"]))
  else:
    step, lo, hi, _ = lat
  mode = cfg.get("mode", "hard")
  if kind in ("qtanh", "qsigmoid"):
    # inputs whose surrogate hits every code / breakpoint: hard x = 2*p-1 (tanh: p itself),
    # smooth x = (p - 1/2) * 16/3 (tanh: p * 8/3)
    base = points(rng, step, lo, hi)
    xs = [base if kind == "qtanh" else (2.0 * base - 1.0).astype(np.float32)]
    if family == "modes":
      xs.append((base * (8.0 / 3.0) if kind == "qtanh" else (base - 0.5) * (16.0 / 3.0)).astype(np.float32))
      # multiples of 1/64: both piecewise-linear surrogates are exact in float32 there
      xs.append((np.arange(-8 * 64, 8 * 64 + 1, 4, dtype=np.float32) / 64.0))
    xs.append(np.array([-8, -4, -2.5, 2.5, 4, 8, -1, 1], dtype=np.float32))
    xs = np.concatenate(xs)
  elif kind == "qrelusig":
    mi = 2.0 ** cfg["integer"]
    # sigma(x / m_i) * m hits every integer / half-integer: x = m_i * (2 s - 1) (hard), * 8/3 (smooth)
    m = 2 ** (cfg["bits"] - (0 if cfg["slope_log"] is None else 1))
    s01 = points(rng, 1.0 / m, 0, m, big=False)
    xs = [(mi * (2.0 * s01 - 1.0)).astype(np.float32), (mi * (s01 - 0.5) * (16.0 / 3.0)).astype(np.float32),
          (mi * np.arange(-8 * 32, 8 * 32 + 1, 4, dtype=np.float32) / 32.0)]
    if cfg["slope_log"] is not None:
      k = 2 ** cfg["slope_log"]
      xs.append((mi * (2.0 * s01 * k - 1.0)).astype(np.float32))
    xs = np.concatenate(xs)
  else:
    extra = ()
    ub = cfg.get("upper")
    if ub is not None:
      extra = (ub, ub - float(step) / 2, ub + float(step) / 2, 2 * ub, 4 * float(hi * step) + 7, 1000.0)
    xs = points(rng, step * (1 if lat is None else lat[3]), lo, hi, extra=extra)
    if kind == "qrelu" and cfg["slope_log"] is not None:
      # negative side: breakpoints of round(p*slope)
      xs = np.concatenate([xs, -np.abs(points(rng, step * 2 ** cfg["slope_log"], 0, max(1, -lo), n_random=6, big=False))])
  xs = distinct(xs)
  try:
    ys = r.call(xs)
  except Exception as e:  # pylint: disable=broad-except
    r.err = "call:" + type(e).__name__
    run.count("call_error")
    return
  xs_eff = flush(xs)
  r.xs, r.ys = fr(xs_eff), fr(ys)
  r.x32 = xs
  if "proute" in cfg:
    # the same call once more (the route is replayed): the inference phase is deterministic
    train_out = r.call.state.pop("train_out", None)
    r.ys_again = fr(r.call(xs))
    run.evaluations += len(xs)
    if train_out is not None and lat is not None and cfg.get("alpha") in (None, 1.0) \
        and kind in ("qbits", "qlinear", "qrelu", "qtanh", "qsigmoid") and cfg.get("upper") is None:
      # the training-phase call of the route: random draws, no model value; the C01 clauses hold for
      # every draw (Props.C01.C01_*_stoch_on_lattice)
      rt = Rec(kind, label + " [training-phase call]", dict(cfg, phase=1))
      rt.family, rt.train, rt.q = "stoch-train", True, q
      rt.xs, rt.ys, rt.x32 = r.xs, fr(train_out), xs
      rt.model = rt.ys
      try:
        rt.impl_min, rt.impl_max = F(float(q.min())), F(float(q.max()))
      except Exception:  # pylint: disable=broad-except
        pass
      run.evaluations += len(xs)
      recs.append(rt)
  xt = tf.constant(xs)
  if kind == "qtanh":
    p = np.asarray(tf.tanh(xt) if cfg["real"] else 2.0 * surrogate32(mode, xt) - 1.0, dtype=np.float32)
    r.ps = fr(p)
  elif kind == "qsigmoid":
    p = np.asarray(tf.sigmoid(xt) if cfg["real"] else surrogate32(mode, xt), dtype=np.float32)
    r.ps = fr(p)
  elif kind == "qrelusig":
    mi = tf.constant(2.0 ** cfg["integer"], dtype=tf.float32)
    r.ps = fr(np.asarray(surrogate32(mode, xt / mi), dtype=np.float32))
  _reporters(r, q, kind, cfg)
  line = {"op": kind, "cfg": _wire_cfg(cfg)}
  if kind in ("qtanh", "qsigmoid", "qrelusig"):
    line["ss" if kind == "qrelusig" else "ps"] = _rats(r.ps)
    if not cfg.get("real") and mode != "real" and family == "modes":
      line["mode"] = mode
      line["xs"] = _rats(r.xs)
  else:
    line["xs"] = _rats(r.xs)

  def done(o, r=r):
    r.model = [core.unrj(p) for p in o["ys"]]
    r.model_min, r.model_max = core.unrj(o["min"]), core.unrj(o["max"])
    r.model_range = None if o.get("range") is None else [core.unrj(p) for p in o["range"]]
    if o.get("yx") is not None:
      r.yx = [core.unrj(p) for p in o["yx"]]
  jobs.append((line, done))
  recs.append(r)


def _collect_pc(run, rng, kind, cfg, jobs, recs):
  """one quantizer with a per-channel alpha tensor -> one Rec per channel (a scalar configuration
  with that channel's alpha), the reporters broadcast the way numpy would compare them"""
  base_kind = "qlinear" if kind == "qlinear_pc" else "qbits"
  al = cfg["alphas"]
  C = len(al)
  label = _label(kind, cfg)
  try:
    q = build(kind, cfg)
  except Exception:  # pylint: disable=broad-except
    run.count("ctor_error")
    return
  chan_cfgs = [dict(bits=cfg["bits"], integer=cfg["integer"], symmetric=cfg["symmetric"],
                    keep_negative=cfg["keep_negative"], alpha=a) for a in al]
  lats = [lattice(base_kind, c) for c in chan_cfgs]
  kn = int(cfg["keep_negative"])
  ub = cfg["bits"] - kn
  lo = (-(2 ** ub) + int(cfg["symmetric"])) if kn else 0
  hi = 2 ** ub - 1
  if lats[0] is None:
    units = points(rng, 1.0, -1, 1)
    steps = [float(F(a) * (F(2) ** cfg["integer"] / 2 if base_kind == "qlinear" else 1)) for a in al]
  else:
    units = points(rng, 1.0, lo, hi)
    steps = [float(l[0] * l[3]) for l in lats]
  units = distinct(units)
  x = np.stack([(units * np.float32(s)).astype(np.float32) for s in steps], axis=1)   # [N, C], exact (po2)
  col = cfg["layout"] == "col"
  r4 = cfg["layout"] == "r4"
  call = caller(q, cfg)

  def to_impl(m):
    return m.T if col else (m.reshape(-1, 1, 1, C) if r4 else m)

  def from_impl(y):
    return y.T if col else (y.reshape(-1, C) if r4 else y)

  def call_mat(m):
    return from_impl(call(to_impl(m)))
  try:
    y = call_mat(x)
    assert y.shape == x.shape
  except Exception as e:  # pylint: disable=broad-except
    run.count("call_error")
    run.count("call_error:" + kind + ":" + type(e).__name__)
    return
  # reporters, broadcast against the output exactly as `q.min() <= y` would
  mins = maxs = None
  try:
    mn = from_impl(np.broadcast_to(np.asarray(q.min(), dtype=np.float64), to_impl(y).shape))
    mx = from_impl(np.broadcast_to(np.asarray(q.max(), dtype=np.float64), to_impl(y).shape))
    mins, maxs = [fr(mn[:, j]) for j in range(C)], [fr(mx[:, j]) for j in range(C)]
  except Exception:  # pylint: disable=broad-except
    run.count("pc_reporter_error")
  rng_kind, R = None, None
  if base_kind == "qlinear" and lats[0] is not None and cfg["bits"] <= 6:
    try:
      R = np.asarray(q.range(), dtype=np.float32)
      rng_kind = "first" if (col and R.ndim == 2 and R.shape[0] == C) else "flat"
    except Exception as e:  # pylint: disable=broad-except
      rng_kind = "err:" + type(e).__name__
  elif base_kind == "qbits":
    try:
      R = np.asarray(q.range(), dtype=np.float32)
      rng_kind = "flat"
    except Exception as e:  # pylint: disable=broad-except
      rng_kind = "assert"
  group = []
  for j in range(C):
    c = dict(chan_cfgs[j])
    c["pc"] = "%s:%s[%d]" % (cfg["layout"], list(al), j)
    r = Rec(base_kind, "%s channel %d" % (label, j), c)
    r.family = "per-channel"
    r.q = q
    xs_j = x[:, j]
    r.xs, r.ys, r.x32 = fr(flush(xs_j)), fr(y[:, j]), xs_j

    def call_j(arr, j=j):
      m = np.zeros((len(arr), C), dtype=np.float32)
      m[:, j] = np.asarray(arr, dtype=np.float32)
      return call_mat(m)[:, j]
    r.call = call_j
    if mins is not None:
      # one bound per element; a scalar / per-channel reporter gives the same bound on every row
      r.impl_min_all, r.impl_max_all = mins[j], maxs[j]
      r.impl_min, r.impl_max = min(mins[j]), max(maxs[j])
      if len(set(mins[j])) > 1 or len(set(maxs[j])) > 1:
        run.disagree("minmax:per-channel-varies", {"config": r.label}, "varies along the batch axis", "constant")
    if rng_kind == "first":
      r.impl_range = fr(R[j])
    elif rng_kind == "flat":
      r.impl_range, r.range_flat = fr(R), True
    elif rng_kind is not None:
      r.impl_range = "assert" if rng_kind == "assert" else rng_kind
    group.append(r)
  if rng_kind == "flat" and C > 1:
    # a listed value must be reachable in SOME channel: it is a fixed point of that channel
    vals = np.asarray(R, dtype=np.float32).ravel()
    back = call_mat(np.repeat(vals[:, None], C, axis=1))
    seen_any = set()
    for r in group:
      seen_any |= set(r.ys)
    group[0].range_unreachable = [F(float(v)) for v, b in zip(vals, back)
                                  if not np.any(b == v) and F(float(v)) not in seen_any]
    run.evaluations += len(vals) * C
  line = {"op": kind, "cfg": _wire_cfg(cfg), "alphas": [core.rj(a) for a in al],
          "rows": [_rats(fr(flush(x[i]))) for i in range(x.shape[0])]}

  def done(o, group=group):
    for j, r in enumerate(group):
      r.model = [core.unrj(row[j]) for row in o["ys"]]
      if "mins" in o:
        r.model_min, r.model_max = core.unrj(o["mins"][j]), core.unrj(o["maxs"][j])
        if r.range_flat:
          r.model_range = None if o["range_last"] is None else [core.unrj(p) for p in o["range_last"]]
        else:
          r.model_range = [core.unrj(p) for p in o["range_first"][j]]
        r.model_range_refuses = o["range_last"] is None and cfg["layout"] != "col"
      else:
        r.model_min, r.model_max = core.unrj(o["min"]), core.unrj(o["max"])
        r.model_range = None
  jobs.append((line, done))
  recs.extend(group)


def collect(run: core.Run, tier: str, prop: str):
  """run implementation and model on every configuration; returns list of Rec"""
  core.assert_repo_import()
  from qkeras import quantizers as Q
  rng = np.random.default_rng(run.seed)
  cfgs = [(k, c, "base") for k, c in configs(tier, rng)]
  recs, jobs = [], []
  Q.set_internal_sigmoid("hard")
  for kind, cfg, family in cfgs:
    _collect_scalar(run, rng, kind, cfg, family, jobs, recs)
  # the strengthening-round families draw from a stream of their own
  rng2 = np.random.default_rng([run.seed, 20260930])
  for kind, cfg in configs_extra(tier, rng2):
    if kind.endswith("_pc"):
      _collect_pc(run, rng2, kind, cfg, jobs, recs)
    else:
      family = ("reassign" if cfg.get("route") in ("reassign", "reassign-alpha") else
                "modes" if "mode" in cfg else "relu-opts")
      _collect_scalar(run, rng2, kind, cfg, family, jobs, recs)
  Q.set_internal_sigmoid("hard")
  # use_stochastic_rounding x the learning phase (a stream of its own; not under Keras 3, whose backend has
  # no learning phase: the flagged quantizers cannot be called there at all)
  if have_phase():
    import tensorflow as tf
    tf.random.set_seed(int(run.seed) + 7)
    _set_phase(0)
    rng3 = np.random.default_rng([run.seed, 20261002])
    for kind, cfg in configs_stoch(tier, rng3):
      _collect_scalar(run, rng3, kind, cfg, "stoch-phase", jobs, recs)
    _set_phase(0)
  else:
    run.count("stoch_phase_skipped_no_learning_phase")
  Q.set_internal_sigmoid("hard")
  # histories on one object (a stream of its own as well)
  from . import fixedq_hist
  fixedq_hist.collect(run, tier, jobs, recs)
  Q.set_internal_sigmoid("hard")
  # strengthening round 4 (seed C02-12): the 1-bit sign formats, every input form of ZERO (appended at the end of
  # this file; a stream of its own, run last so that every older family keeps its sample and its process state)
  collect_sign(run, tier, jobs, recs)
  Q.set_internal_sigmoid("hard")
  outs = core.run_driver(prop, [l for l, _ in jobs], driver="C01")
  for (_, done), o in zip(jobs, outs):
    done(o)
  for r in recs:
    run.count("family_" + r.family)
  return recs


def compare(run: core.Run, recs, with_reporters=True):
  """correspondence: implementation vs model, bit for bit"""
  for r in recs:
    run.count("kind_" + r.kind)
    if r.train:
      r.mirrored = False      # random draws: there is no model value to agree with
      run.count("train_phase_records")
      continue
    band = set()
    if r.kind == "qlinear" and r.cfg["bits"] == 1 and r.cfg["keep_negative"]:
      # float32: (x/qs - 1/2) rounds to exactly -1/2 for -2^-25 < x/qs < 0 and tf.round(-0.5) = -0:
      # tiny negative inputs get the + code.  Band device (DESIGN §3.2): either sign is admissible there.
      qs = (F(1) if r.cfg["alpha"] is None else F(r.cfg["alpha"])) * F(2) ** r.cfg["integer"]
      band = {i for i, x in enumerate(r.xs) if -qs / 2 ** 24 <= x < 0}
      run.count("band_points", len(band))
    bad = [(i, str(r.xs[i]), str(r.ys[i]), str(r.model[i])) for i in range(len(r.xs))
           if r.ys[i] != r.model[i] and i not in band]
    run.compared += len(r.xs)
    r.mirrored = not bad
    if bad:
      run.disagree("value:" + r.kind, {"config": r.label, "n_points": len(r.xs), "n_bad": len(bad),
                                        "first": bad[:3]}, "see first", "see first")
    if r.yx is not None:
      # the mode-dependent model (surrogate computed from the INPUT under the call-time mode), at the
      # points where the float32 surrogate is exact
      mode = r.cfg.get("mode", "hard")
      scale = F(2) ** r.cfg["integer"] if r.kind == "qrelusig" else F(1)
      n_exact, badx = 0, []
      for i, x in enumerate(r.xs):
        s = sigmoid_exact(mode, x / scale)
        sp = r.ps[i] if r.kind != "qtanh" else (r.ps[i] + 1) / 2
        if s == sp:
          n_exact += 1
          if r.ys[i] != r.yx[i]:
            badx.append((str(x), str(r.ys[i]), str(r.yx[i])))
      run.compared += n_exact
      run.count("mode_exact_points", n_exact)
      if badx:
        r.mirrored = False
        run.disagree("value-from-input:" + r.kind, {"config": r.label, "n_bad": len(badx), "first": badx[:3]},
                     "see first", "see first")
    if with_reporters:
      if r.impl_min is not None and (r.impl_min != r.model_min or r.impl_max != r.model_max):
        if r.kind in ("qbits", "qrelu", "qlinear", "qrelusig"):
          run.disagree("minmax:" + r.kind, {"config": r.label}, [str(r.impl_min), str(r.impl_max)],
                       [str(r.model_min), str(r.model_max)])
      if isinstance(r.impl_range, list) and r.model_range is not None and r.impl_range != r.model_range:
        run.disagree("range:" + r.kind, {"config": r.label}, [str(v) for v in r.impl_range[:6]],
                     [str(v) for v in r.model_range[:6]])
      if r.impl_range == "assert" and r.model_range is not None and r.kind != "qlinear":
        run.disagree("range-assert:" + r.kind, {"config": r.label}, "AssertionError", "list")
      if isinstance(r.impl_range, list) and r.model_range is None:
        run.disagree("range-assert:" + r.kind, {"config": r.label}, "list", "assert")
      if r.family == "per-channel" and r.kind == "qlinear" and isinstance(r.impl_range, str) \
          and not getattr(r, "model_range_refuses", True):
        run.disagree("range-error:" + r.kind, {"config": r.label}, r.impl_range, "list")


# ===========================================================================================================
# Strengthening round 4 (seed C02-12) — APPENDED: the 1-bit SIGN formats (family `sign-1bit`)
#
# quantized_linear(bits=1, keep_negative=1) has the two codes +-qs/2, quantized_bits(bits=1, keep_negative=1)
# the two codes +-alpha; both are nearest-code projections onto their code set and NEVER emit zero.  The older
# oracles skipped them (`lattice()` is None: only monotone / idempotent were judged).  This family makes the
# format a certainty of every run (the base sample holds it only by chance) and aims at its single case split,
# the input ZERO, in every form it can arrive in.
# ===========================================================================================================

def sign_codes(kind, cfg):
  """(lower code, upper code, output gain) of a 1-bit SIGN format, exact; None for every other format.
  quantized_linear divides by alpha * 2^integer first (the codes are +-qs/2, gain 1); the legacy
  quantized_bits multiplies the OUTPUT by alpha (codes +-1 of the unscaled input, gain alpha)."""
  if kind not in ("qbits", "qlinear") or cfg.get("bits") != 1 or not int(cfg.get("keep_negative", 0)):
    return None
  g = F(1) if cfg.get("alpha") is None else F(cfg["alpha"])
  if kind == "qlinear":
    half = g * F(2) ** cfg["integer"] / 2
    return -half, half, F(1)
  return F(-1), F(1), g


SIGN_FORMS = ("tensor", "numpy", "list", "float64", "scalar-py", "scalar-0d", "rank2", "rank3", "rank4", "rank5",
              "zeros", "negzeros", "int32", "variable", "layer", "tf-function", "get_quantizer", "again")


def configs_sign(tier, rng):
  """[(sub-family, kind, cfg)] — a stream of its own"""
  quick = tier == "quick"
  out = []
  alphas = [None, 1.0, 0.5, 2.0, 0.25, 1.5, 3.0]
  lin = [dict(bits=1, integer=i, symmetric=sym, keep_negative=1, alpha=a)
         for i in range(-2, 4) for sym in (0, 1) for a in alphas]
  bit = [dict(bits=1, integer=i, symmetric=sym, keep_negative=1, alpha=a)
         for i in (-1, 0, 2) for sym in (0, 1) for a in alphas]
  # fresh object, breakpoint-complete stream (zeros, subnormals, +-ulp around 0 and around both codes).  Power-of-two
  # scales only here and in the phase routes: that stream holds +-(2^24 - 1) steps, where the float32
  # straight-through sum x + (xq - x) is exact only for power-of-two codes (the `forms` stream stops at 2^20 steps
  # and takes the other scales)
  po2 = lambda lst: [c for c in lst if c["alpha"] not in (1.5, 3.0)]
  for c in _pick(rng, po2(lin), 10 if quick else 60):
    out.append(("scalar", "qlinear", c))
  for c in _pick(rng, po2(bit), 6 if quick else 30):
    out.append(("scalar", "qbits", c))
  # ONE object through every input form (a history as well: k-th use = fresh use)
  for c in _pick(rng, lin, 6 if quick else 30):
    out.append(("forms", "qlinear", c))
  for c in _pick(rng, bit, 3 if quick else 12):
    out.append(("forms", "qbits", c))
  # use_stochastic_rounding x the learning phase on the 1-bit format (routes of round 3)
  for route in ("asis", "train-then-infer", "scope1-exit", "ctor-train", "layer", "tf-function", "noflag-train"):
    c = dict(po2(lin)[int(rng.integers(0, len(po2(lin))))])
    c.update(stoch=0 if route == "noflag-train" else 1, phase=1 if route == "noflag-train" else 0, proute=route,
             flag_form=FLAG_FORMS[int(rng.integers(0, len(FLAG_FORMS)))],
             u=float(rng.integers(0, 1024)) / 1024.0, u2=float(rng.integers(0, 1024)) / 1024.0)
    out.append(("phase", "qlinear", c))
  for route in ("asis", "assign", "noflag-train"):
    c = dict(po2(bit)[int(rng.integers(0, len(po2(bit))))])
    c.update(stoch=0 if route == "noflag-train" else 1, phase=1 if route == "noflag-train" else 0, proute=route,
             flag_form=FLAG_FORMS[int(rng.integers(0, len(FLAG_FORMS)))], u=0.5, u2=0.5)
    out.append(("phase", "qbits", c))
  # per-channel constant alpha tensors
  for layout in ("row", "col", "r4") if quick else ("row", "vec", "col", "list", "tf", "r4"):
    al = PC_ALPHAS[int(rng.integers(0, len(PC_ALPHAS)))]
    out.append(("pc", "qlinear_pc", dict(bits=1, integer=int(rng.integers(-1, 3)), symmetric=int(rng.integers(0, 2)),
                                         keep_negative=1, alphas=list(al), layout=layout)))
  for layout in ("list", "tuple"):
    al = PC_ALPHAS[int(rng.integers(0, len(PC_ALPHAS)))]
    out.append(("pc", "qbits_pc", dict(bits=1, integer=int(rng.integers(-1, 3)), symmetric=int(rng.integers(0, 2)),
                                       keep_negative=1, alphas=list(al), layout=layout)))
  # data-dependent scales, judged GIVEN the scale the object reports
  for mode in ("auto", "auto_po2", "auto", "auto_po2") if quick else ("auto", "auto_po2") * 8:
    out.append(("auto", "qlinear", dict(bits=1, integer=int(rng.integers(-1, 3)), symmetric=int(rng.integers(0, 2)),
                                        keep_negative=1, alpha_mode=mode, via=["direct", "trainable"][int(rng.integers(0, 2))]
                                        if mode == "auto_po2" else "direct")))
  return out


def _sign_points(rng, half):
  """float32 inputs for the form stream: both zeros, both codes +-1 ulp, inside / outside the range, tiny
  NORMAL values (no subnormals: numpy inputs are not flushed the way tensors are), large values"""
  h = float(half)
  pts = [0.0, -0.0, h, -h, h / 2, -h / 2, 2 * h, -2 * h, 6 * h, -6 * h, 1e-30, -1e-30, h * 2.0 ** 20, -h * 2.0 ** 20]
  for b in (h, -h):
    pts += ulps(np.float32(b), ks=(-1, 1))
  pts += list((rng.choice([-1, 1], size=6) * np.exp2(rng.uniform(-10, 3, size=6)) * h))
  return np.array(pts, dtype=np.float32)


def _sign_form_call(q, form, xs, state):
  """run `xs` (1-D float32) through the quantizer in the given input form; returns (inputs as seen, outputs)"""
  import tensorflow as tf
  n = len(xs)
  if form in ("tensor", "again"):
    return xs, np.asarray(q(tf.constant(xs)), dtype=np.float32)
  if form == "numpy":
    return xs, np.asarray(q(np.array(xs, dtype=np.float32)), dtype=np.float32)
  if form == "list":
    return xs, np.asarray(q([float(v) for v in xs]), dtype=np.float32)
  if form == "float64":
    return xs, np.asarray(q(np.array(xs, dtype=np.float64)), dtype=np.float32)
  if form == "scalar-py":
    sel = xs[:8]
    return sel, np.array([np.asarray(q(float(v)), dtype=np.float32).reshape(()) for v in sel], dtype=np.float32)
  if form == "scalar-0d":
    sel = xs[:8]
    return sel, np.array([np.asarray(q(tf.constant(np.float32(v))), dtype=np.float32).reshape(()) for v in sel],
                         dtype=np.float32)
  if form in ("rank2", "rank3", "rank4", "rank5"):
    shape = {"rank2": (n, 1), "rank3": (1, n, 1), "rank4": (1, 1, n, 1), "rank5": (1, 1, 1, n, 1)}[form]
    y = np.asarray(q(tf.constant(xs.reshape(shape))), dtype=np.float32)
    if y.shape != shape:
      raise AssertionError("shape %r -> %r" % (shape, y.shape))
    return xs, y.reshape(-1)
  if form in ("zeros", "negzeros"):
    z = np.zeros((2, 3), dtype=np.float32) * np.float32(-1.0 if form == "negzeros" else 1.0)
    return z.reshape(-1), np.asarray(q(tf.constant(z)), dtype=np.float32).reshape(-1)
  if form == "int32":
    zi = np.array([-2, -1, 0, 1, 2, 0, 0, 7], dtype=np.int32)
    return zi.astype(np.float32), np.asarray(q(zi), dtype=np.float32)
  if form == "variable":
    return xs, np.asarray(q(tf.Variable(xs)), dtype=np.float32)
  if form == "layer":
    import qkeras
    lay = qkeras.QActivation(q)
    if lay.quantizer is not q:
      raise AssertionError("QActivation holds another object")
    return xs, np.asarray(lay(tf.constant(xs)), dtype=np.float32)
  if form == "tf-function":
    fn = tf.function(lambda v: q(v), input_signature=[tf.TensorSpec([None], tf.float32)])
    return xs, np.asarray(fn(tf.constant(xs)), dtype=np.float32)
  if form == "get_quantizer":
    # the text route: str(q) -> get_quantizer -> a NEW object that must behave the same
    from qkeras import quantizers as Q
    q2 = Q.get_quantizer(state["text"])
    return xs, np.asarray(q2(tf.constant(xs)), dtype=np.float32)
  raise ValueError(form)


def _sign_job(r, kind, cfg, jobs):
  line = {"op": kind, "cfg": {"bits": cfg["bits"], "integer": cfg["integer"], "symmetric": cfg["symmetric"],
                             "keep_negative": cfg["keep_negative"],
                             "alpha": None if cfg["alpha"] is None else core.rj(cfg["alpha"])},
          "xs": _rats(r.xs)}

  def done(o, r=r):
    r.model = [core.unrj(p) for p in o["ys"]]
    r.model_min, r.model_max = core.unrj(o["min"]), core.unrj(o["max"])
  jobs.append((line, done))


def _collect_sign_forms(run, rng, kind, cfg, jobs, recs):
  import tensorflow as tf
  lo, hi, gain = sign_codes(kind, cfg)
  try:
    q = _build_direct(kind, cfg)
  except Exception:  # pylint: disable=broad-except
    run.count("ctor_error")
    return
  xs = _sign_points(rng, hi * gain if kind == "qlinear" else hi)
  a = cfg["alpha"]
  cls = "quantized_linear" if kind == "qlinear" else "quantized_bits"
  state = {"text": "%s(bits=1,integer=%d,symmetric=%d,keep_negative=1%s)" % (
      cls, cfg["integer"], cfg["symmetric"], "" if a is None else ",alpha=%r" % float(a))}

  def plain(arr):
    return np.asarray(q(tf.constant(np.asarray(arr, dtype=np.float32))), dtype=np.float32)
  for form in SIGN_FORMS:
    try:
      xin, ys = _sign_form_call(q, form, xs, state)
    except Exception as e:  # pylint: disable=broad-except
      run.count("sign_form_error:%s:%s:%s" % (kind, form, type(e).__name__))
      continue
    c = dict(cfg, form=form)
    r = Rec(kind, _label(kind, c), c)
    r.family, r.q, r.call = "sign-1bit", q, plain
    r.xs, r.ys, r.x32 = fr(xin), fr(ys), xin
    run.evaluations += len(xin)
    run.count("sign_form_" + form)
    _sign_job(r, kind, cfg, jobs)
    recs.append(r)


def _collect_sign_auto(run, rng, cfg, jobs, recs):
  """quantized_linear(1, ..., alpha="auto" / "auto_po2") on a [N, C] tensor: one scale per column; every column
  is judged as the 1-bit format of the scale the object REPORTS for it (an oracle input, as in the histories)"""
  import tensorflow as tf
  from qkeras import quantizers as Q
  mode = cfg["alpha_mode"]
  try:
    if cfg["via"] == "trainable":
      q = Q.quantized_linear(1, cfg["integer"], cfg["symmetric"], keep_negative=1, alpha=None)
      q._set_trainable_parameter()      # alpha=None -> "auto_po2", symmetric on
    else:
      q = Q.quantized_linear(1, cfg["integer"], cfg["symmetric"], keep_negative=1, alpha=mode)
  except Exception:  # pylint: disable=broad-except
    run.count("ctor_error")
    return
  units = np.array([0.0, -0.0, 1.0, -1.0, 0.5, -0.5, 0.25, -0.75, 1.0 / 64, -1.0 / 64, 0.0, 0.875, -0.375, 0.0],
                   dtype=np.float32)
  units = np.concatenate([units, rng.uniform(-1, 1, size=6).astype(np.float32)])
  scales = [2.0 ** int(rng.integers(-3, 4)) for _ in range(3)]
  cols = [(units * np.float32(s)).astype(np.float32) for s in scales]
  if mode == "auto":
    cols.append(np.zeros_like(units))       # an all-zero channel: the scale is K.epsilon(), the output is not 0
  x = np.stack(cols, axis=1)
  C = x.shape[1]
  try:
    y = np.asarray(q(tf.constant(x)), dtype=np.float32)
    sc = np.asarray(q.quantization_scale, dtype=np.float32).ravel()
    assert y.shape == x.shape
  except Exception as e:  # pylint: disable=broad-except
    run.count("call_error")
    run.count("call_error:sign-auto:" + type(e).__name__)
    return
  if sc.size == 1:
    sc = np.repeat(sc, C)
  if sc.size != C or not np.all(np.isfinite(sc)) or not np.all(sc > 0):
    run.disagree("sign-auto-scale", {"config": _label("qlinear", cfg)}, str(sc), "one positive scale per channel")
    return
  for j in range(C):
    a = F(float(sc[j])) / F(2) ** cfg["integer"]        # alpha-equivalent of the reported scale (ub = 0)
    c = dict(bits=1, integer=cfg["integer"], symmetric=1 if cfg["via"] == "trainable" else cfg["symmetric"],
             keep_negative=1, alpha=a, auto=1, alpha_mode=mode, via=cfg["via"], chan=j)
    r = Rec("qlinear", "%s channel %d" % (_label("qlinear", cfg), j), c)
    r.family, r.q = "sign-1bit", q
    r.xs, r.ys, r.x32 = fr(x[:, j]), fr(y[:, j]), x[:, j]
    run.evaluations += x.shape[0]
    run.count("sign_auto_" + mode)
    _sign_job(r, "qlinear", c, jobs)
    recs.append(r)


def collect_sign(run, tier, jobs, recs):
  """family `sign-1bit` (strengthening round 4); a random stream of its own"""
  rng = np.random.default_rng([run.seed, 20261006])
  phase_ok = have_phase()
  for sub, kind, cfg in configs_sign(tier, rng):
    run.count("sign_sub_" + sub)
    if sub == "forms":
      _collect_sign_forms(run, rng, kind, cfg, jobs, recs)
    elif sub == "auto":
      _collect_sign_auto(run, rng, cfg, jobs, recs)
    elif sub == "pc":
      _collect_pc(run, rng, kind, cfg, jobs, recs)     # records keep the family "per-channel" (known-finding keys)
    elif sub == "phase":
      if phase_ok:
        _collect_scalar(run, rng, kind, cfg, "sign-1bit", jobs, recs)
    else:
      _collect_scalar(run, rng, kind, cfg, "sign-1bit", jobs, recs)
  if phase_ok:
    _set_phase(0)
