"""qkv.core — shared plumbing of every property check.

One check run (see DESIGN.md §1C):
  1. Lean obligations: `lake build`, axiom audit of QKV.Props.<id>, escape-hatch grep.
  2. Correspondence: generator -> real qkeras (in-process) -> Lean driver -> diff.
  3. Clause oracle on the implementation's own outputs.
  4. Verdict: exit 0 / VIOLATION (exit 1) / KNOWN-FINDING lines / exit 2 on infra failure.
"""
from __future__ import annotations

import fractions
import json
import os
import re
import subprocess
import sys
import time

VERIF = os.path.dirname(os.path.dirname(os.path.dirname(os.path.abspath(__file__))))
LEAN_DIR = os.path.join(VERIF, "lean")
REPO = os.environ.get("QKV_REPO", "/repo")
ALLOWED_AXIOMS = {"propext", "Classical.choice", "Quot.sound"}

GLOBAL_TRUSTED_BASE = [
    "Lean 4.33 kernel; axioms limited to propext, Classical.choice, Quot.sound (audited per run)",
    "Lean interpreter (`lean --run`) executing the model definitions in the driver",
    "hand-written model tied to /repo by behavioural correspondence on generated cases "
    "(finite sample; exhaustive only for the static tables)",
    "the Python harness: generators, adapters, canonicalisation, clause oracle wiring",
    "TensorFlow / Keras / numpy below the modelled qkeras code",
]


class InfraError(Exception):
  pass


# --------------------------------------------------------------------------- utils

def seed() -> int:
  try:
    return int(os.environ.get("VERIF_SEED", "0"))
  except ValueError:
    return 0


def frac(x) -> fractions.Fraction:
  """exact rational of a python/numpy number"""
  import numpy as np
  if isinstance(x, fractions.Fraction):
    return x
  if isinstance(x, (bool, np.bool_)):
    return fractions.Fraction(int(x))
  if isinstance(x, (int, np.integer)):
    return fractions.Fraction(int(x))
  return fractions.Fraction(float(x))


def rj(x):
  """rational -> protocol form [num, den]"""
  f = frac(x)
  return [f.numerator, f.denominator]


def unrj(p) -> fractions.Fraction:
  return fractions.Fraction(int(p[0]), int(p[1]))


def enc_list(xs):
  """iterable of numbers (python / numpy float32 / float64) -> list of exact [num, den] pairs"""
  return [rj(x) for x in xs]


def dec_list(ps):
  return [unrj(p) for p in ps]


def f32(x):
  """nearest float32 as a python float (exactly representable)"""
  import numpy as np
  return float(np.float32(x))


def assert_repo_import():
  import qkeras
  path = os.path.realpath(qkeras.__file__)
  if not path.startswith(os.path.realpath(REPO) + os.sep):
    raise InfraError("qkeras imported from %s, not from %s" % (path, REPO))


# --------------------------------------------------------------------------- Lean side

def lake_build(targets=()) -> tuple[bool, str]:
  cmd = ["lake", "build"] + list(targets)
  p = subprocess.run(cmd, cwd=LEAN_DIR, capture_output=True, text=True)
  return p.returncode == 0, (p.stdout + p.stderr)


def run_driver(prop: str, lines: list[dict], driver: str | None = None, timeout=3600) -> list[dict]:
  """pipe JSON lines through the Lean model driver of `prop`; one answer per line."""
  drv = os.path.join("drivers", (driver or prop) + ".lean")
  if not lines:
    return []
  data = "\n".join(json.dumps(l, separators=(",", ":")) for l in lines) + "\n"
  p = subprocess.run(["lake", "env", "lean", "--run", drv], cwd=LEAN_DIR, input=data,
                     capture_output=True, text=True, timeout=timeout)
  if p.returncode != 0:
    raise InfraError("lean driver %s failed: %s" % (drv, (p.stderr or p.stdout)[-2000:]))
  out = [json.loads(l) for l in p.stdout.splitlines() if l.strip()]
  if len(out) != len(lines):
    raise InfraError("lean driver %s returned %d lines for %d inputs: %s"
                     % (drv, len(out), len(lines), p.stderr[-1000:]))
  for o in out:
    if "drv_error" in o:
      raise InfraError("lean driver %s: %s" % (drv, o["drv_error"]))
  return out


_ESCAPES = re.compile(r"\b(sorry|admit|native_decide|bv_decide|implemented_by|unsafe|maxHeartbeats\s+0)\b|^\s*axiom\s")


def grep_escape_hatches() -> list[str]:
  hits = []
  for root, _, files in os.walk(os.path.join(LEAN_DIR, "QKV")):
    for f in files:
      if not f.endswith(".lean"):
        continue
      in_block = 0
      with open(os.path.join(root, f)) as fh:
        for i, line in enumerate(fh, 1):
          code = line
          # strip block comments (coarse but conservative) and line comments
          if in_block:
            if "-/" in code:
              code = code.split("-/", 1)[1]
              in_block = 0
            else:
              continue
          while "/-" in code:
            pre, post = code.split("/-", 1)
            if "-/" in post:
              code = pre + post.split("-/", 1)[1]
            else:
              code = pre
              in_block = 1
              break
          code = code.split("--", 1)[0]
          if _ESCAPES.search(code):
            hits.append("%s:%d: %s" % (os.path.relpath(os.path.join(root, f), LEAN_DIR), i, line.strip()))
  return hits


def _qkv_imports(mod: str, seen: set):
  """transitive closure of the `import QKV.…` lines of a module of this project"""
  if mod in seen:
    return
  seen.add(mod)
  path = os.path.join(LEAN_DIR, *mod.split(".")) + ".lean"
  try:
    with open(path) as fh:
      for line in fh:
        m = re.match(r"\s*(?:public\s+)?import\s+(QKV\.[A-Za-z0-9_.]+)", line)
        if m:
          _qkv_imports(m.group(1), seen)
  except OSError:
    pass


def leanchecker(prop: str, modules=None) -> dict:
  """thorough tier: independent re-check of the compiled proofs with the toolchain's `leanchecker` —
  the property's Props module(s) and every QKV module they (transitively) import, ONE module per
  leanchecker process (a single call over all modules needs > 50 GB; one module needs ~3 GB)."""
  seen: set = set()
  for m in (modules or ["QKV.Props." + prop]):
    _qkv_imports(m, seen)
  mods = sorted(seen)
  t0 = time.time()
  bad, log = [], ""
  for m in mods:
    p = subprocess.run(["lake", "env", "leanchecker", m], cwd=LEAN_DIR, capture_output=True, text=True)
    if p.returncode < 0:
      raise InfraError("leanchecker on %s was killed by signal %d" % (m, -p.returncode))
    if p.returncode != 0:
      bad.append(m)
      log += "%s: %s\n" % (m, (p.stdout + p.stderr)[-800:])
  return {"ok": not bad, "modules": len(mods), "checked": mods, "rejected": bad,
          "wall_s": round(time.time() - t0, 1), "log": log[-3000:]}


def audit(prop: str, modules=None, prefixes=None) -> dict:
  """build the proofs of `prop` and list every theorem of its Props module(s) with its axioms.

  Returns {ok, obligations:[{name, axioms, ok}], build_log, escapes}."""
  modules = modules or ["QKV.Props." + prop]
  prefixes = tuple(prefixes or [prop + "_"])
  ok, log = lake_build(modules)
  res = {"module": ",".join(modules), "build_ok": ok, "build_log": log[-4000:] if not ok else "",
         "obligations": [], "escapes": grep_escape_hatches()}
  for mod in modules if ok else []:
    p = subprocess.run(["lake", "env", "lean", "--run", "drivers/Audit.lean", mod], cwd=LEAN_DIR,
                       capture_output=True, text=True)
    if p.returncode != 0:
      res["build_ok"] = False
      res["build_log"] = (p.stdout + p.stderr)[-4000:]
    else:
      for line in p.stdout.splitlines():
        line = line.strip()
        if not line.startswith("{"):
          continue
        o = json.loads(line)
        # property theorems are named <prop>_...; structure projections / private helpers of the
        # Props file are not obligations themselves (their axioms surface in the theorems using them)
        if not o["name"].split(".")[-1].startswith(prefixes):
          continue
        o["ok"] = set(o["axioms"]) <= ALLOWED_AXIOMS
        res["obligations"].append(o)
  res["ok"] = bool(res["build_ok"] and res["obligations"] and all(o["ok"] for o in res["obligations"])
                   and not res["escapes"])
  return res


# --------------------------------------------------------------------------- known findings

def load_known(prop: str) -> list[dict]:
  """known_findings.json (global) plus known/<prop>.json (per property), both committed files"""
  out = []
  for path in (os.path.join(VERIF, "known_findings.json"), os.path.join(VERIF, "known", prop + ".json")):
    if not os.path.exists(path):
      continue
    with open(path) as fh:
      data = json.load(fh)
    out += [f for f in data.get("findings", []) if f.get("property") == prop]
  return out


def _subset(pat, key) -> bool:
  """every entry of pat equals the entry of key (lists in pat = allowed alternatives)"""
  for k, v in pat.items():
    if k not in key:
      return False
    kv = key[k]
    if isinstance(v, dict) and "any_of" in v:
      if kv not in v["any_of"]:
        return False
    elif kv != v:
      return False
  return True


# --------------------------------------------------------------------------- a check run

class Run:
  """collects cases, violations, evidence of one check run"""

  def __init__(self, prop: str, tier: str):
    self.prop = prop
    self.tier = tier
    # a child pass (thorough tier re-run under the pinned Keras 3) writes its own files
    self.tag = os.environ.get("QKV_CHILD_TAG", "")
    self.fileid = prop + self.tag
    self.seed = seed()
    self.t0 = time.time()
    self.evaluations = 0
    self.compared = 0
    self.nontrivial = set()
    self.samples = []
    self.hist = {}
    self.violations = []      # dicts: key, detail, mirrored(bool)
    self.disagreements = []   # model vs impl mismatches
    self.known = load_known(prop)
    self.known_seen = {}
    self.extra = {}
    self.assumptions = []
    self.audit = None
    self.replay_paths = []
    # stale replay files of earlier runs of this property would be mistaken for this run's
    rdir = os.path.join(VERIF, "replays")
    if os.path.isdir(rdir):
      for f in os.listdir(rdir):
        if f.startswith(self.fileid + "-"):
          try:
            os.remove(os.path.join(rdir, f))
          except OSError:
            pass

  # -- bookkeeping
  def count(self, bucket: str, n: int = 1):
    self.hist[bucket] = self.hist.get(bucket, 0) + n

  def case(self, key, nontrivial: bool = True, sample=None):
    self.evaluations += 1
    if nontrivial:
      self.nontrivial.add(key if isinstance(key, (str, int, tuple)) else json.dumps(key, sort_keys=True))
    if sample is not None and len(self.samples) < 8:
      self.samples.append(sample)

  def disagree(self, stream: str, case, impl, model):
    """model and implementation differ on `case` (correspondence broken here)"""
    self.disagreements.append({"stream": stream, "case": case, "impl": impl, "model": model})

  def violate(self, clause: str, key: dict, detail: dict, mirrored: bool = True):
    """a property clause fails on the REAL code at this case.

    key: flat dict identifying the site (class/cell/options) for known-finding matching.
    mirrored: the model reproduces the implementation's behaviour on this case."""
    k = dict(key)
    k["clause"] = clause
    self.violations.append({"key": k, "detail": detail, "mirrored": mirrored})

  # -- verdict
  def _match_known(self, v):
    if not v["mirrored"]:
      return None
    for f in self.known:
      if _subset(f.get("match", {}), v["key"]):
        return f
    return None

  def finish(self) -> int:
    os.makedirs(os.path.join(VERIF, "evidence"), exist_ok=True)
    os.makedirs(os.path.join(VERIF, "replays"), exist_ok=True)
    new = []
    for v in self.violations:
      f = self._match_known(v)
      if f is None:
        new.append(v)
      else:
        e = self.known_seen.setdefault(f["id"], {"finding": f, "n": 0, "first": v})
        e["n"] += 1
    lines = []
    exit_code = 0
    for fid, e in sorted(self.known_seen.items()):
      lines.append("KNOWN-FINDING: property=%s %s [%s; %d case(s) this run]"
                   % (self.prop, e["finding"]["what"], fid, e["n"]))
    # group new violations by key so that one defect gives one line
    groups = {}
    for v in new:
      groups.setdefault(json.dumps(v["key"], sort_keys=True), []).append(v)
    n_viol = 0
    for i, (gk, vs) in enumerate(sorted(groups.items())):
      path = os.path.join("replays", "%s-%d-%d.json" % (self.fileid, self.seed, i))
      with open(os.path.join(VERIF, path), "w") as fh:
        json.dump({"property": self.prop, "kind": "clause-failure-on-implementation",
                   "key": vs[0]["key"], "cases": [v["detail"] for v in vs[:5]], "n_cases": len(vs),
                   "how_to_replay": "./check %s --replay %s" % (self.prop, path)}, fh, indent=1, default=str)
      lines.append("VIOLATION property=%s replay=%s" % (self.prop, path))
      self.replay_paths.append(path)
      n_viol += 1
      exit_code = 1
    broken = []
    if self.audit is not None and not self.audit["ok"]:
      bad = [o["name"] for o in self.audit["obligations"] if not o["ok"]]
      broken.append({"what": "proof-obligations", "module": self.audit["module"],
                     "build_ok": self.audit["build_ok"], "bad_theorems": bad,
                     "escapes": self.audit["escapes"], "log": self.audit["build_log"]})
    if self.disagreements:
      by_stream = {}
      for d in self.disagreements:
        by_stream.setdefault(d["stream"], []).append(d)
      for s, ds in sorted(by_stream.items()):
        broken.append({"what": "correspondence", "stream": s, "n": len(ds), "first": ds[:3]})
    if broken and n_viol == 0:
      # the property is no longer shown to hold, but no failing input was found
      path = os.path.join("replays", "%s-%d-broken.json" % (self.fileid, self.seed))
      with open(os.path.join(VERIF, path), "w") as fh:
        json.dump({"property": self.prop, "kind": "no-failing-input-found", "broken": broken,
                   "note": "the listed theorem(s)/correspondence stream(s) no longer check; the clause "
                           "oracle found no input on which the property itself fails"},
                  fh, indent=1, default=str)
      lines.append("VIOLATION property=%s replay=%s no-failing-input-found" % (self.prop, path))
      self.replay_paths.append(path)
      n_viol += 1
      exit_code = 1
    elif broken:
      # attach the broken obligations to the first replay for the record
      with open(os.path.join(VERIF, "replays", "%s-%d-broken.json" % (self.fileid, self.seed)), "w") as fh:
        json.dump({"property": self.prop, "kind": "broken-alongside-violation", "broken": broken}, fh,
                  indent=1, default=str)
    self._write_evidence(n_viol)
    for l in lines:
      print(l)
    print("[%s%s %s seed=%d] evaluations=%d compared=%d distinct_nontrivial=%d obligations=%s "
          "disagreements=%d violations=%d known=%d wall=%.1fs"
          % (self.prop, self.tag, self.tier, self.seed, self.evaluations, self.compared, len(self.nontrivial),
             ("%d/%d" % (sum(o["ok"] for o in self.audit["obligations"]), len(self.audit["obligations"])))
             if self.audit else "-", len(self.disagreements), n_viol, len(self.known_seen),
             time.time() - self.t0))
    sys.stdout.flush()
    return exit_code

  def _source_state(self) -> dict:
    """which source the run was tied to: repository HEAD, dirty flag, sha256 of the anchored files"""
    import hashlib
    st = {"repo": REPO}
    try:
      st["head"] = subprocess.run(["git", "-C", REPO, "rev-parse", "HEAD"], capture_output=True,
                                  text=True).stdout.strip()
      st["dirty_files"] = [l[3:] for l in subprocess.run(
          ["git", "-C", REPO, "status", "--porcelain", "--untracked-files=no"], capture_output=True,
          text=True).stdout.splitlines()][:20]
    except OSError:
      pass
    files = []
    try:
      with open(os.path.join(VERIF, "properties.jsonl")) as fh:
        for line in fh:
          d = json.loads(line)
          if d.get("id") == self.prop:
            files = d.get("anchors", {}).get("files", [])
    except OSError:
      pass
    sha = {}
    for f in files:
      try:
        with open(os.path.join(REPO, f), "rb") as fh:
          sha[f] = hashlib.sha256(fh.read()).hexdigest()[:16]
      except OSError:
        sha[f] = "unreadable"
    st["anchored_files_sha256_16"] = sha
    return st

  def _write_evidence(self, n_viol: int):
    obl = self.audit["obligations"] if self.audit else []
    cov = {
        "obligations": len(obl),
        "discharged": sum(1 for o in obl if o["ok"]) if (self.audit and self.audit["build_ok"] and not self.audit["escapes"]) else 0,
        "checker_cmd": "cd lean && lake build %s && for m in %s; do lake env lean --run drivers/Audit.lean $m; done"
                       % ((self.audit or {}).get("module", "QKV.Props." + self.prop).replace(",", " "),
                          (self.audit or {}).get("module", "QKV.Props." + self.prop).replace(",", " ")),
        "trusted_base": GLOBAL_TRUSTED_BASE + self.assumptions,
        "theorems": [{"name": o["name"], "axioms": o["axioms"]} for o in obl],
        "evaluations": self.evaluations,
        "traces_validated_against_impl": self.compared,
        "distinct_nontrivial": len(self.nontrivial),
        "rule": self.extra.pop("rule", "see DESIGN.md section of this property"),
        "samples": self.samples[:8] if self.samples else [{"note": "no sample recorded"}],
        "branch_histogram": self.hist,
        "disagreements": len(self.disagreements),
        "known_findings_seen": {k: v["n"] for k, v in self.known_seen.items()},
        "replays": self.replay_paths,
        "source_tied_to": self._source_state(),
    }
    cov.update(self.extra)
    ev = {"property_id": self.prop, "tier": self.tier, "seed": self.seed, "level": "proof",
          "coverage": cov, "assumptions": self.assumptions, "wall_s": round(time.time() - self.t0, 2),
          "violations": n_viol}
    with open(os.path.join(VERIF, "evidence", self.fileid + ".json"), "w") as fh:
      json.dump(ev, fh, indent=1, default=str)
