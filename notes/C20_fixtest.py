import os, sys, json
sys.path.insert(0, "/tmp/wv-C20/harness"); sys.path.insert(0, os.environ.get("QKV_REPO","/repo"))
from qkv.props.c20 import *
import qkeras, qkeras.autoqkeras.autoqkeras_internal as ai
from tensorflow.keras import layers as L
from tensorflow.keras.models import Model
print("qkeras from", qkeras.__file__)
cap={}
real=ai.model_quantize
def spy(model,q,*a,**k):
  cap["q"]=copy.deepcopy(q); return real(model,q,*a,**k)
ai.model_quantize=spy
def dump(qm):
  out=[]
  for l in qm.layers:
    qs=[str(q) if q is not None else None for q in (l.get_quantizers() if hasattr(l,"get_quantizers") else [])]
    a=getattr(l,"activation",None); ra=getattr(l,"recurrent_activation",None)
    out.append([l.name,l.__class__.__name__,qs,str(a) if a is not None and not callable(a) or hasattr(a,"bits") else getattr(a,"__name__",None), str(ra) if hasattr(ra,"bits") else getattr(ra,"__name__",None)])
  return out
class ModHP(StubHP):
  def Choice(self, name, values, **kw):
    values=list(values)
    if self.k < len(self.script) and values: self.script[self.k] %= len(values)
    return StubHP.Choice(self, name, values, **kw)
def trial(model, lim, cfg, script, **kw):
  hm=make_hm(ai, model, lim, cfg, **kw); hm.groups={}
  hp=ModHP(script)
  with quiet(): qm,_=hm.quantize_model(hp)
  return {"log":hp.rec,"q":cap["q"],"model":dump(qm)}
res={}
ms=build_models("quick")
# F2 witness: Dense(relu) limited to 2-bit activations, activation_bits 4
res["F2"]=trial(ms["mlp"], {"Dense":[4,4,2]}, small_cfg(), [0]*12)
# F1 witness: lstm_a limited to 1 bit by its pattern, SimpleRNN up to 4 bits; last option everywhere
res["F1_rnn"]=trial(ms["rnn"], {"Conv1D":[1,4,1],"lstm_a":[1,4,4,1],"SimpleRNN":[4,8,4,3],"Dense":[1,4,4]}, rnn_cfg(small_cfg()), [0,0,2,2,0,0,0,0,0,0,0,0])
res["F1_sep"]=trial(ms["sep"], {"sep_1":[1,4,3],"SeparableConv2D":[4,4,3],"Dense":[1,4,4],"Activation":[1]}, small_cfg(), [0,2,2,0,0,0,0,0])
# F3 witness
res["F3"]=trial(ms["names"], {"Dense":[4,8,3],"Activation":[3]}, small_cfg(), [2,2,2,1,1,1,1,1,1,1,1,1])
# control: plain names, no separable/recurrent layers, no fused activations
i=x=L.Input((6,),name="input")
x=L.Dense(4,name="d0")(x); x=L.Activation("relu",name="act_0")(x)
x=L.Dense(3,use_bias=False,name="d1")(x); x=L.Activation("tanh",name="act_1")(x)
x=L.Dense(2,name="d_out")(x); x=L.Activation("softmax",name="softmax")(x)
ctrl=Model(i,x)
res["control"]=[trial(ctrl, lim, cfg, s, **kw) for lim,cfg,kw in (
   ({"Dense":[4,8,3],"Activation":[4]}, small_cfg(), {}),
   ({"^d[01]$":[2,8,3],"Dense":[4,4,6],"Activation":[6]}, small_cfg(), {}),
   ({"Dense":[8,8,8],"Activation":[8]}, copy.deepcopy(__import__("qkeras.autoqkeras.quantization_config",fromlist=["x"]).default_quantization_config), {"layer_indexes":[1,2,3]}),
  ) for s in ([0]*10,[1]*10,[2,1,0,1,2,1,0,1,2,1])]
i=x=L.Input((6,6,1),name="input")
x=L.Conv2D(2,(2,2),name="conv_a")(x); x=L.BatchNormalization(name="bn_a")(x); x=L.Activation("relu",name="act_a")(x)
x=L.DepthwiseConv2D((2,2),use_bias=False,name="dw_b")(x); x=L.Activation("linear",name="lin_b")(x)
x=L.Flatten(name="flatten")(x); x=L.Dense(3,name="fc")(x)
ctrl2=Model(i,x)
res["control2"]=[trial(ctrl2, {"Conv2D":[2,4,3],"DepthwiseConv2D":[2,4,4],"Dense":[1,4,4],"Activation":[2],"BatchNormalization":[]}, small_cfg(), s) for s in ([0]*10,[1]*10)]
json.dump(res, open(sys.argv[1],"w"), indent=1, default=str)
