#!/bin/bash
# tools/try_seed.sh <patch.diff> <prop> [demo.py]  — apply a breaking change in the scratch worktree
# /tmp/wr-main (never /repo), run the property's quick check against it, run the demonstration, undo.
P="$1"; PROP="$2"; DEMO="$3"
W=/tmp/wr-main
git -C $W checkout -q -- . && git -C $W clean -fdq
git -C $W checkout -q --detach $(git -C /repo rev-parse HEAD)
git -C $W apply "$P" || { echo "PATCH DOES NOT APPLY"; exit 3; }
cd /verif
QKV_REPO=$W ./check $PROP quick 2>&1 | grep -v "^WARNING\|^I0000\|^KNOWN" | tail -4
echo "check exit: ${PIPESTATUS[0]}"
if [ -n "$DEMO" ]; then
  TF_USE_LEGACY_KERAS=1 PROTOCOL_BUFFERS_PYTHON_IMPLEMENTATION=python TF_CPP_MIN_LOG_LEVEL=3 PYTHONPATH=$W /venv/bin/python -W ignore "$DEMO" > /tmp/try_seed_demo.log 2>&1; echo "demo exit with patch: $?"
  git -C $W checkout -q -- .
  TF_USE_LEGACY_KERAS=1 PROTOCOL_BUFFERS_PYTHON_IMPLEMENTATION=python TF_CPP_MIN_LOG_LEVEL=3 PYTHONPATH=$W /venv/bin/python -W ignore "$DEMO" > /tmp/try_seed_demo0.log 2>&1; echo "demo exit clean: $?"
fi
git -C $W checkout -q -- . && git -C $W clean -fdq
