#!/usr/bin/env python3
"""tools/check_known.py : every `fixed:` record names a fix: commit that is on /repo's main, and every
fix: commit of /repo is recorded under `fixed` in known_findings.json or known/Cxx.json."""
import json, glob, re, subprocess, sys, os
HERE = os.path.dirname(os.path.dirname(os.path.abspath(__file__)))
log = subprocess.run(["git", "-C", "/repo", "log", "--format=%h %s"], capture_output=True, text=True).stdout.splitlines()
hashes = {l.split()[0]: l for l in log if l.split(" ", 1)[1].startswith("fix:")}
seen, bad = set(), 0
for f in [os.path.join(HERE, "known_findings.json")] + sorted(glob.glob(os.path.join(HERE, "known", "*.json"))):
  d = json.load(open(f))
  for x in d.get("fixed", []):
    s = x if isinstance(x, str) else json.dumps(x)
    ok = [h for h in re.findall(r"\b[0-9a-f]{7}\b", s) if h in hashes]
    if not ok:
      print("NO VALID HASH in", f, ":", s[:120]); bad += 1
    seen.update(ok)
for h, l in hashes.items():
  if h not in seen:
    print("fix commit not recorded in any known file:", l); bad += 1
print("%d fix: commits, %d recorded" % (len(hashes), len(seen)))
sys.exit(1 if bad else 0)
