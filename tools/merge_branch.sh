#!/bin/bash
# tools/merge_branch.sh <branch> "<props to re-check>" : merge a builder branch, regenerate MANIFEST, rebuild, re-run checks
B="$1"; PROPS="$2"
cd "$(dirname "$0")/.."
git merge --no-edit $B 2>&1 | grep -i "conflict\|files changed\|Already"
for f in $(git status --short | grep "^UU" | awk '{print $2}'); do
  case $f in evidence/*) git checkout --theirs $f; git add $f;; *) echo "UNRESOLVED CONFLICT $f"; exit 1;; esac; done
git diff --cached --quiet || git commit -qm "Merge branch '$B'"
python3 tools/gen_manifest.py > /dev/null
(cd lean && lake build 2>&1 | grep -v "^⚠\|linter\|^$\|Note:\|warning\|Hint\|\[apply\]" | tail -2)
mkdir -p /tmp/qk
printf "%s\n" $PROPS | xargs -P 4 -I{} sh -c './check {} quick > /tmp/qk/{}.log 2>&1; echo "{} exit=$?"'
for p in $PROPS; do grep -h "^\[C\|^VIOL" /tmp/qk/$p.log | tail -3; done
git add -A; git commit -qm "merged $B; checks re-run: $PROPS" -q
git worktree remove --force /tmp/$B 2>/dev/null; git branch -D $B -q 2>/dev/null
