#!/bin/bash
# run the repository's pinned baseline (guard off) and compare with /root/.vp/BASELINE.json
OUT=${1:-/tmp/qkv_baseline.xml}
cd /repo && /venv/bin/python -m pytest -ra -q -p no:cacheprovider --timeout=900 --continue-on-collection-errors --junitxml=$OUT > ${OUT%.xml}.log 2>&1
python3 - "$OUT" <<'PY'
import json, sys, xml.etree.ElementTree as ET
base=set(json.load(open('/root/.vp/BASELINE.json'))['stable_pass'])
passed=set()
for tc in ET.parse(sys.argv[1]).iter('testcase'):
    if not any(c.tag in('failure','error','skipped') for c in tc):
        passed.add(tc.get('classname')+'::'+tc.get('name'))
missing=sorted(base-passed)
print(len(passed),'passed; baseline tests missing:',missing)
sys.exit(1 if missing else 0)
PY
