#!/usr/bin/env python3
"""tools/seed_table.py <sweep-log>... : record the latest sweep result of every seed in its meta.json
(`sweep` entry) and print the DESIGN.md §10.S table (seed, property, what it needs, first result, now)."""
import json, os, re, sys, glob
HERE = os.path.dirname(os.path.dirname(os.path.abspath(__file__)))
res = {}
for log in sys.argv[1:]:
  for line in open(log):
    m = re.match(r"(\S+) prop=(\S+) check_exit=(\d+) violation_lines=(\d+) no_failing_input=(\d+) (.*)demo=(\S+)", line)
    if m:
      res[m.group(1)] = {"check_exit": int(m.group(3)), "violation_lines": int(m.group(4)),
                         "no_failing_input_found": int(m.group(5)), "demo_with_patch/clean": m.group(7)}
FIRST = json.load(open(os.path.join(HERE, "seeded", "first_results.json")))
rows = []
for f in sorted(glob.glob(os.path.join(HERE, "seeded", "*", "meta.json"))):
  sid = f.split("/")[-2]
  d = json.load(open(f))
  if sid in res:
    d["sweep"] = res[sid]
    json.dump(d, open(f, "w"), indent=1)
  s = d.get("sweep", {})
  now = ("caught" if s.get("check_exit") == 1 and not s.get("no_failing_input_found") else
         "caught (no failing input)" if s.get("check_exit") == 1 else "MISSED" if s else "?")
  need = str(d.get("needs_to_manifest", ""))
  need = re.sub(r"\s+", " ", need)[:150]
  rows.append("| %s | %s | %s | %s |" % (sid, need, FIRST.get(sid, "caught"), now))
print("| seed | needs, in order to manifest | first run of the check | now |\n|---|---|---|---|")
print("\n".join(rows))
