#!/usr/bin/env python3
"""tools/assemble_design.py <seed-table.md> : rebuild DESIGN.md §10 from its parts —
§10 intro + §10.0 (kept from DESIGN.md), the per-property "as built" subsections
(notes/DESIGN_10_sections.md, maintained text), §10.R (kept, with the chronological list of fix: commits
regenerated from /repo) and §10.S (the seed table produced by tools/seed_table.py)."""
import os, re, subprocess, sys
HERE = os.path.dirname(os.path.dirname(os.path.abspath(__file__)))
d = open(os.path.join(HERE, "DESIGN.md")).read()
i0 = re.search(r"(?m)^### 10\.16 C16 \(as built\)", d).start()
head = d[:i0]
iR = d.index("### 10.R Rounds after the first build")
tailR = d[iR:]
iS = tailR.find("### 10.S ")
if iS >= 0:
  tailR = tailR[:iS]
secs = open(os.path.join(HERE, "notes", "DESIGN_10_sections.md")).read()
secs = secs[re.search(r"(?m)^### 10\.", secs).start():]
j = secs.find("### Outside these subsections")
if j >= 0:
  secs = secs[:j]
# regenerate the fix list inside 10.R
log = subprocess.run(["git", "-C", "/repo", "log", "--reverse", "--format=%h %s"], capture_output=True,
                     text=True).stdout.strip().splitlines()
log = [l for l in log if l.split(" ", 1)[1].startswith("fix:")]
a = re.search(r"All `fix:` commits on /repo main, in order[^\n]*:", tailR).start()
b = tailR.index("**Seeding waves and strengthening rounds.**")
tailR = (tailR[:a] + "All `fix:` commits on /repo main, in order (%d):\n\n" % len(log) +
         "\n".join("    " + l for l in log) + "\n\n" + tailR[b:])
table = open(sys.argv[1]).read().strip()
secS = """
### 10.S Seeded breaking changes: which check catches which

Every row is an independent change to google/qkeras written by a sub-agent that saw only the property's text
(`seeded/<id>/`: `patch.diff`, demonstration, `meta.json`).  "first run" is the verdict of the property's quick
check as it stood when the seed arrived; "now" is the verdict of `tools/seed_sweep.sh` on the committed tree
(`caught` = exit 1 with a VIOLATION line carrying a failing input; `caught (no failing input)` = exit 1 with
only a broken correspondence; the seed's `meta.json` `sweep` entry has the numbers).  What was generalised after
a miss is described in the property's §10 subsection and in `notes/Cxx.md`.

"""
out = head.rstrip() + "\n\n" + secs.rstrip() + "\n\n" + tailR.rstrip() + "\n" + secS + table + "\n"
open(os.path.join(HERE, "DESIGN.md"), "w").write(out)
print("DESIGN.md: %d lines" % out.count("\n"))
