#!/bin/bash
# tools/rehash.sh old1=new1 old2=new2 ... : rewrite fix-commit hashes (branch hash -> hash on /repo main)
# in the text files of the framework after a cherry-pick
cd "$(dirname "$0")/.."
for m in "$@"; do
  o=${m%%=*}; n=${m##*=}
  grep -rl --include=*.json --include=*.md --include=*.lean --include=*.py "$o" known notes manifest.d lean/QKV lean/drivers harness known_findings.json DESIGN.md 2>/dev/null | while read f; do
    sed -i "s/$o/$n/g" "$f"; echo "  $f: $o -> $n"; done
done
