#!/bin/bash
# tools/seed_baseline.sh [-j N] <seed-id>... : confirm the pinned 90-test baseline still passes with each seeded
# patch applied in its own scratch worktree (/tmp/wr-base-<id>, created and removed here)
J=1
if [ "$1" = "-j" ]; then J="$2"; shift 2; fi
one() {
  sid="$1"; W=/tmp/wr-base-$sid
  git -C /repo worktree remove --force $W >/dev/null 2>&1
  git -C /repo worktree add -q --detach $W HEAD || { echo "$sid: cannot create worktree"; return; }
  if git -C $W apply /verif/seeded/$sid/patch.diff; then
    (cd $W && PYTHONPATH=$W /venv/bin/python -m pytest -q -p no:cacheprovider --timeout=900 --continue-on-collection-errors --junitxml=/tmp/seedbase-$sid.xml tests > /tmp/seedbase-$sid.log 2>&1)
    python3 - "$sid" <<'PY'
import json, sys, xml.etree.ElementTree as ET
sid=sys.argv[1]
base=set(json.load(open('/root/.vp/BASELINE.json'))['stable_pass'])
passed=set()
for tc in ET.parse('/tmp/seedbase-%s.xml'%sid).iter('testcase'):
    if not any(c.tag in('failure','error','skipped') for c in tc):
        passed.add(tc.get('classname')+'::'+tc.get('name'))
missing=sorted(base-passed)
print(sid, 'baseline ok' if not missing else 'BASELINE BROKEN: %s'%missing, '(%d passed)'%len(passed))
PY
  else
    echo "$sid: PATCH DOES NOT APPLY"
  fi
  git -C /repo worktree remove --force $W
  rm -f /tmp/seedbase-$sid.xml /tmp/seedbase-$sid.log
}
export -f one
printf '%s\n' "$@" | xargs -P $J -I{} bash -c 'one {}'
