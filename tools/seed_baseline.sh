#!/bin/bash
# tools/seed_baseline.sh <seed-id>... : confirm the pinned 90-test baseline still passes with each seeded patch
# applied in a scratch worktree (/tmp/wr-base, created and removed here)
W=/tmp/wr-base
git -C /repo worktree add -q -f $W HEAD 2>/dev/null || true
for sid in "$@"; do
  git -C $W checkout -q -- . ; git -C $W clean -fdq
  git -C $W apply /verif/seeded/$sid/patch.diff || { echo "$sid: PATCH DOES NOT APPLY"; continue; }
  (cd $W && PYTHONPATH=$W /venv/bin/python -m pytest -q -p no:cacheprovider --timeout=900 --continue-on-collection-errors --junitxml=/tmp/seedbase-$sid.xml tests > /tmp/seedbase-$sid.log 2>&1)
  python3 - "$sid" <<'PY'
import json, sys, xml.etree.ElementTree as ET
sid=sys.argv[1]
base=set(json.load(open('/root/.vp/BASELINE.json'))['stable_pass'])
passed=set()
for tc in ET.parse('/tmp/seedbase-%s.xml'%sid).iter('testcase'):
    if not any(c.tag in('failure','error','skipped') for c in tc):
        passed.add(tc.get('classname')+'::'+tc.get('name'))
missing=sorted(base-passed)
print(sid, 'baseline ok' if not missing else 'BASELINE BROKEN: %s'%missing, '(%d passed)'%len(passed))
PY
done
git -C $W checkout -q -- . ; git -C /repo worktree remove --force $W
