#!/bin/bash
# tools/import_seed.sh <prop> <n> [<new-n>] : copy /tmp/seed-<prop>/_seed/<n>/ to seeded/<prop>-<new-n>/
P="$1"; N="$2"; M="${3:-$2}"
cd "$(dirname "$0")/.."
S=${SEEDROOT:-/tmp/seed}-$P/_seed/$N; D=seeded/$P-$M
[ -d "$S" ] || { echo "no $S"; exit 1; }
mkdir -p $D; cp $S/patch.diff $S/meta.json $D/; cp $S/demo*.py $D/ 2>/dev/null
# demos assert that qkeras is imported from the seeding agent's worktree; the sweep runs them from
# another scratch worktree under /tmp, so accept any /tmp/ root
sed -i "s#${SEEDROOT:-/tmp/seed}-$P#/tmp/#g" $D/demo*.py 2>/dev/null
ls $D | tr '\n' ' '; echo
