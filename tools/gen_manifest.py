#!/usr/bin/env python3
"""writes MANIFEST.json from the table below (single source of truth for claimed checks)"""
import json, os
HERE = os.path.dirname(os.path.dirname(os.path.abspath(__file__)))
props = [json.loads(l) for l in open(os.path.join(HERE, "properties.jsonl"))]
ids = [p["id"] for p in props]

CLAIMED = {
  "C16": dict(
    text="Lean 4 theorems (QKV.Props.C16) prove for all bit widths that every product of operand values is a value of the output type computed by a field-by-field model of the multiplier factory (per table cell; stated exception = both operands most negative), that the 36-cell dispatch is the kind the operands call for, and give a counterexample theorem for the po2-output/zero cells (known finding). The model is tied to /repo on every run by comparing make_multiplier / convert_qkeras_quantizer with the model on a grid of real operand types (all 36 cells) and by brute-force judging the REAL output types with the Lean value predicate.",
    note="Trusted: Lean kernel + 3 standard axioms; Lean interpreter running the model; harness; the correspondence is a finite grid (bits<=8 quick, <=16 thorough), exhaustive only over the 36 table cells; reading of a po2 type's value set is qtools' own get_exp.",
    design="§4 C16", technique="Lean 4 proof over hand-written model + differential correspondence + brute-force clause oracle"),
}

# per-property entries written by the property's own module: manifest.d/Cxx.json
# {"text": ..., "note": ..., "design": ..., "technique": ...}
MD = os.path.join(HERE, "manifest.d")
if os.path.isdir(MD):
  for f in sorted(os.listdir(MD)):
    if f.endswith(".json"):
      CLAIMED[f[:-5]] = json.load(open(os.path.join(MD, f)))

NA_REASON = "check not built yet in this round (machinery under construction; see DESIGN.md §7 build order)"

def main():
  checks = []
  for pid in ids:
    if pid in CLAIMED:
      c = CLAIMED[pid]
      checks.append({
        "property_id": pid,
        "quick_cmd": "./check %s quick" % pid,
        "thorough_cmd": "./check %s thorough" % pid,
        "evidence_file": "evidence/%s.json" % pid,
        "replay_cmd_template": "./check %s --replay {path}" % pid,
        "engine": "lean4-qkv",
        "level_claimed": {"category": "proof", "text": c["text"], "design_ref": c["design"]},
        "level_note": c["note"],
        "technique": c["technique"],
      })
  m = {
    "version": 1,
    "setup_cmd": "./setup.sh",
    "hooks": {"guard": "QKERAS_VERIF", "enable": "no source hooks: checks only set harness-side environment variables (TF_USE_LEGACY_KERAS=1, QKERAS_VERIF=1 is unused by /repo)",
              "baseline_off_cmd": "cd /repo && /venv/bin/python -m pytest -ra -q -p no:cacheprovider --timeout=900 --continue-on-collection-errors",
              "source_commits": [], "add_only": True},
    "engines": [{"name": "lean4-qkv", "path": "lean/", "serves_properties": sorted(CLAIMED),
                 "kind_free_text": "Lean 4 models + theorems (lake project QKV), Python correspondence harness (harness/qkv)"}],
    "checks": checks,
    "not_applicable": [{"property_id": pid, "reason": NA_REASON} for pid in ids if pid not in CLAIMED],
    "notes": "See DESIGN.md (trusted base: §3.10 and each check's level_note; which seeded change each check catches: §10.S). Known findings / fixed defects: known_findings.json and known/Cxx.json (cross-checked against the fix: commits of /repo by tools/check_known.py). Every check rebuilds the Lean project (lake build) and audits axioms/sorry before it runs, then ties the model to /repo's working tree (QKV_REPO overrides the path).",
  }
  with open(os.path.join(HERE, "MANIFEST.json"), "w") as fh:
    json.dump(m, fh, indent=1)
  print("claimed:", sorted(CLAIMED))

if __name__ == "__main__":
  main()
