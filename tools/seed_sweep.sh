#!/bin/bash
# tools/seed_sweep.sh [-j N] [seed-id ...]   — mutation self-test of the checks.
# For every seeded/<id>/ (default: all) apply patch.diff in its own scratch worktree of /repo
# (/tmp/wr-sweep-<id>, created and removed here, never /repo itself), run the quick check of the
# property named in meta.json against it (QKV_REPO), run demo.py with and without the patch, and
# print one line per seed:  <id> check_exit=<0|1|2> viol=<first VIOLATION line kind> demo=<with>/<clean>
# Expected for a seed the check catches: check_exit=1, demo=1/0.
J=4
if [ "$1" = "-j" ]; then J="$2"; shift 2; fi
cd "$(dirname "$0")/.."
V=$(pwd)
IDS="$@"
[ -z "$IDS" ] && IDS=$(ls seeded)
one() {
  sid="$1"; V="$2"
  W=/tmp/wr-sweep-$sid
  prop=$(python3 -c "import json;print(json.load(open('$V/seeded/$sid/meta.json'))['property'])")
  git -C /repo worktree remove --force $W >/dev/null 2>&1
  git -C /repo worktree add -q --detach $W HEAD || { echo "$sid: cannot create worktree"; return; }
  if ! git -C $W apply $V/seeded/$sid/patch.diff 2>/dev/null; then
    echo "$sid prop=$prop PATCH-DOES-NOT-APPLY"; git -C /repo worktree remove --force $W; return; fi
  ENVV="TF_USE_LEGACY_KERAS=1 PROTOCOL_BUFFERS_PYTHON_IMPLEMENTATION=python TF_CPP_MIN_LOG_LEVEL=3 CUDA_VISIBLE_DEVICES="
  demo=$(ls $V/seeded/$sid/demo*.py 2>/dev/null | head -1)
  dw="-"; dc="-"
  if [ -n "$demo" ]; then
    (cd $W && env $ENVV PYTHONPATH=$W /venv/bin/python -W ignore $demo > /tmp/sweep-$sid.demo1.log 2>&1); dw=$?
  fi
  # the checks write evidence/replays under /verif: give each sweep run its own copy of the tree state
  # by running from a private snapshot of the harness (shared lean/.lake by symlink)
  S=/tmp/sweep-verif-$sid
  rm -rf $S; mkdir -p $S
  (cd $V && tar cf - --exclude=lean/.lake --exclude=evidence --exclude=replays --exclude=.git --exclude=seeded . ) | (cd $S && tar xf -)
  cp -r $V/lean/.lake $S/lean/.lake   # private copy: a rebuild in /verif must not disturb a running sweep
  (cd $S && QKV_REPO=$W ./check $prop quick > /tmp/sweep-$sid.check.log 2>&1); ce=$?
  viol=$(grep -c "^VIOLATION" /tmp/sweep-$sid.check.log)
  nofail=$(grep -c "no-failing-input-found" /tmp/sweep-$sid.check.log)
  summ=$(grep "^\[$prop" /tmp/sweep-$sid.check.log | tail -1 | sed 's/.*\(disagreements=[0-9]* violations=[0-9]*\).*/\1/')
  if [ -n "$demo" ]; then
    git -C $W checkout -q -- .
    (cd $W && env $ENVV PYTHONPATH=$W /venv/bin/python -W ignore $demo > /tmp/sweep-$sid.demo0.log 2>&1); dc=$?
  fi
  echo "$sid prop=$prop check_exit=$ce violation_lines=$viol no_failing_input=$nofail $summ demo=$dw/$dc"
  mkdir -p $V/seeded/$sid && cp /tmp/sweep-$sid.check.log /tmp/sweep-$sid.last.log 2>/dev/null
  rm -rf $S
  git -C /repo worktree remove --force $W
}
export -f one
printf "%s\n" $IDS | xargs -P $J -I{} bash -c "one {} $V"
