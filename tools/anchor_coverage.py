#!/venv/bin/python
"""tools/anchor_coverage.py <Cxx> [tier]  — which lines of the ANCHORED code does the check execute?

Runs `python -m qkv.run Cxx quick` under coverage.py (source = $QKV_REPO/qkeras), then prints, for every
function / method of the property's anchor files that overlaps an anchored line range of
properties.jsonl (with some slack, line numbers drift with fix commits), the lines the run never
executed.  Unexecuted anchored lines are blind spots of the correspondence: a change there cannot be
seen.  (Diagnostic tool for building the generators; not part of any check.)"""
import ast
import json
import os
import re
import subprocess
import sys
import tempfile

VERIF = os.path.dirname(os.path.dirname(os.path.abspath(__file__)))
REPO = os.environ.get("QKV_REPO", "/repo")


def main():
  prop = sys.argv[1]
  tier = sys.argv[2] if len(sys.argv) > 2 else "quick"
  p = [json.loads(l) for l in open(os.path.join(VERIF, "properties.jsonl"))]
  p = [x for x in p if x["id"] == prop][0]
  ranges = {}
  for m in p["anchors"]["mechanism"]:
    w = m["where"]
    f, _, spans = w.partition(":")
    for sp in spans.split(","):
      mm = re.match(r"(\d+)(?:-(\d+))?", sp.strip())
      if mm:
        a = int(mm.group(1))
        b = int(mm.group(2) or a)
        ranges.setdefault(f, []).append((a, b, m["name"]))
  for f in p["anchors"]["files"]:
    ranges.setdefault(f, [])
  tmp = tempfile.mkdtemp(prefix="anchcov-")
  data = os.path.join(tmp, ".coverage")
  env = dict(os.environ)
  env.update({"TF_USE_LEGACY_KERAS": "1", "PROTOCOL_BUFFERS_PYTHON_IMPLEMENTATION": "python",
              "TF_CPP_MIN_LOG_LEVEL": "3", "PYTHONHASHSEED": "0", "CUDA_VISIBLE_DEVICES": "",
              "QKV_REPO": REPO, "PYTHONPATH": REPO + ":" + os.path.join(VERIF, "harness"),
              "COVERAGE_FILE": data, "VERIF_TIER": tier})
  # evidence / replays of this diagnostic run go to a scratch copy of the harness tree
  r = subprocess.run(["/venv/bin/python", "-W", "ignore", "-m", "coverage", "run", "--source",
                      os.path.join(REPO, "qkeras"), "-m", "qkv.run", prop, tier],
                     cwd=VERIF, env=env, capture_output=True, text=True)
  tail = [l for l in r.stdout.splitlines() if l.startswith("[" + prop)]
  print("check exit", r.returncode, tail[-1] if tail else r.stdout[-300:])
  rep = subprocess.run(["/venv/bin/python", "-m", "coverage", "json", "-o", os.path.join(tmp, "cov.json")],
                       cwd=VERIF, env=env, capture_output=True, text=True)
  cov = json.load(open(os.path.join(tmp, "cov.json")))["files"]
  for f, spans in sorted(ranges.items()):
    path = os.path.join(REPO, f)
    key = [k for k in cov if os.path.realpath(os.path.join(VERIF, k)) == os.path.realpath(path)
           or os.path.realpath(k) == os.path.realpath(path)]
    if not key:
      print("== %s: NOT EXECUTED AT ALL" % f)
      continue
    c = cov[key[0]]
    missing = set(c["missing_lines"])
    src = open(path).read()
    lines = src.splitlines()
    tree = ast.parse(src)
    funcs = []
    for node in ast.walk(tree):
      if isinstance(node, (ast.FunctionDef, ast.AsyncFunctionDef)):
        funcs.append((node.lineno, node.end_lineno, node.name))
    print("== %s (%d%% of file executed)" % (f, round(c["summary"]["percent_covered"])))
    shown = set()
    for (a, b, name) in spans or [(1, len(lines), "whole file")]:
      for (fa, fb, fn) in funcs:
        if fb < a - 40 or fa > b + 40 or (fa, fb) in shown:
          continue
        # innermost functions only once
        shown.add((fa, fb))
        miss = sorted(l for l in missing if fa <= l <= fb)
        # drop lines belonging to nested functions listed separately
        if not miss:
          continue
        print("  -- %s (lines %d-%d) [anchor: %s]: %d unexecuted" % (fn, fa, fb, name[:50], len(miss)))
        for l in miss[:60]:
          print("       %5d  %s" % (l, lines[l - 1].rstrip()[:110]))
  subprocess.run(["rm", "-rf", tmp])


if __name__ == "__main__":
  main()
