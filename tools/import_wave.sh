#!/bin/bash
# tools/import_wave.sh <seedroot-prefix> <first-new-n> <prop>... : import _seed/1.. of each property's seeding worktree
# (<prefix>-<prop>) as seeded/<prop>-<n>, <n+1>, ... and remove the worktree
PRE="$1"; N0="$2"; shift 2
cd "$(dirname "$0")/.."
for P in "$@"; do
  n=$N0
  for d in $(ls -d $PRE-$P/_seed/*/ 2>/dev/null | sort); do
    k=$(basename $d)
    [ -f $d/patch.diff ] || continue
    SEEDROOT=$PRE tools/import_seed.sh $P $k $n; n=$((n+1))
  done
  git -C /repo worktree remove --force $PRE-$P
done
