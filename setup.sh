#!/bin/bash
# offline setup: build every Lean model, lemma and property theorem from files on disk
set -e
cd "$(dirname "$0")/lean"
lake build 2>&1 | tail -5
